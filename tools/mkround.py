#!/usr/bin/env python3
"""tools/mkround.py <suffix> [ids...]: prepare a round of seeded changes.

For every property id a scratch worktree of /repo's HEAD is created at /tmp/wt/<ID> together with
/tmp/wt/<ID>/_out/PROMPT.txt: the text a fresh sub-agent is given (the property record, what earlier
rounds did for that property - so that it does something different in kind - and the rules). Nothing
from /verif goes into the prompt except the property record and the earlier changes' own summaries.
Import the results with tools/seedimport.py <suffix>; remove the worktrees afterwards
(git -C /repo worktree remove --force /tmp/wt/<ID>).
"""
import json, os, subprocess, sys

ROOT = os.path.dirname(os.path.dirname(os.path.abspath(__file__)))
suffix = sys.argv[1]
ids = sys.argv[2:] or ["C%02d" % i for i in range(1, 21)]
props = {}
for l in open(os.path.join(ROOT, "properties.jsonl")):
    d = json.loads(l)
    props[d["id"]] = d

RULES = """You are working in a scratch git worktree of the Go project vx-labs/wasp (a distributed MQTT broker) at {wt}.
Work ONLY inside {wt}. Do not read or touch /repo, /verif or any other worktree. Do NOT use `git stash` (the stash is
shared between worktrees); to take a change out and put it back use `git diff > /tmp/{pid}.diff; git apply -R /tmp/{pid}.diff`
and `git apply /tmp/{pid}.diff`. Every go command needs:
    export GOFLAGS=-mod=mod GOPROXY=off GOSUMDB=off GOTOOLCHAIN=local
(no network; nothing can be downloaded).

Below is one semantic property that the broker is supposed to have. Your task: make ONE realistic change to the broker's
non-test code - something a developer could plausibly commit (a refactoring, an optimisation, a small feature, a well-meant
but wrong "fix", with the comments such a commit would carry) - such that

 1. the property no longer holds,
 2. the code still compiles:  go build ./... && go build -tags verif ./...
 3. every existing test still passes:  go test -vet=off -count=1 ./...   (also with -tags verif)
 4. the violation needs something SPECIFIC to manifest and is HARD TO DETECT: a conjunction of conditions, a boundary or
    unusual value, a particular order or overlap of events, a particular interleaving of goroutines, a fault at a particular
    moment, state kept across events... Ordinary inputs and ordinary histories must behave exactly as before. Assume that the
    people who will look for your change run large numbers of randomly generated inputs, operation sequences, gossip schedules,
    crash points and concurrent programs against the property, with reference models as oracles, and that they have already
    caught every earlier attempt listed below. Think about what such generators are unlikely to produce.
 5. it is DIFFERENT IN KIND from the earlier attempts listed below (not the same mechanism in another place).

Do not touch test files of the project, the files guarded by the `verif` build tag, go.mod or go.sum.

Then demonstrate it: write a Go test file named zz_demo_test.go in the directory of the package it belongs to, whose test
function names contain "Demo", which FAILS with your change and PASSES without it (check both, as described above with
git apply -R). Prefer a deterministic demonstration; if it depends on a schedule, make it reliable (repeat, widen the window)
and say how often it fails.

Leave in {wt}/_out/ :
  patch.diff   `git diff` of your change to the non-test code only (it must apply to the original commit with `git apply`)
  notes.md     what was changed; why it breaks the property; exactly what is needed for it to manifest; where the demonstration
               file belongs and the commands you ran with their outcomes (with and without the change; existing tests)
Leave the worktree with your change applied and zz_demo_test.go in place. Do not commit anything.
Your final answer should be a short summary: the file(s) changed, the mechanism, what it needs to manifest, and the results of
the checks 2, 3 and of the demonstration with / without the change.
"""


def earlier(pid):
    out = []
    seeded = os.path.join(ROOT, "seeded")
    for name in sorted(os.listdir(seeded)):
        if not name.startswith(pid + "-"):
            continue
        notes = os.path.join(seeded, name, "notes.md")
        if not os.path.exists(notes):
            continue
        lines = [l.rstrip() for l in open(notes).read().splitlines()]
        # title + the first ~25 non-empty lines are enough to tell the mechanism
        keep = [l for l in lines if l.strip()][:25]
        out.append("--- earlier attempt %s ---\n%s\n" % (name, "\n".join(keep)))
    return "\n".join(out) if out else "(none)"


for pid in ids:
    wt = "/tmp/wt/" + pid
    if not os.path.exists(wt):
        os.makedirs("/tmp/wt", exist_ok=True)
        subprocess.check_call(["git", "-C", "/repo", "worktree", "add", "-q", "--detach", wt, "HEAD"])
    os.makedirs(wt + "/_out", exist_ok=True)
    p = props[pid]
    record = {k: p[k] for k in ("id", "title", "statement", "quantifier", "why_tests_cant", "anchors") if k in p}
    text = RULES.format(wt=wt, pid=pid)
    text += "\n================ THE PROPERTY ================\n" + json.dumps(record, indent=1) + "\n"
    text += "\n================ EARLIER ATTEMPTS FOR THIS PROPERTY (all of them were caught) ================\n" + earlier(pid) + "\n"
    open(wt + "/_out/PROMPT.txt", "w").write(text)
    print(pid, "ready:", wt + "/_out/PROMPT.txt", len(text), "bytes")
