#!/usr/bin/env python3
"""Rewrites the 'Additions of rounds 7 and 8' list of DESIGN.md section 6 from checks_config.ADDITIONS."""
import os, re, sys
ROOT = os.path.dirname(os.path.dirname(os.path.abspath(__file__)))
sys.path.insert(0, ROOT)
from checks_config import ADDITIONS
p = os.path.join(ROOT, "DESIGN.md")
s = open(p).read()
start = s.index("**Additions of rounds 7 and 8**")
end = s.index("-----", start)
block = "**Additions of rounds 7 and 8** (each is a run or a generator dimension of the property named; the run plans are in `checks_config.py`):\n\n"
for k in sorted(ADDITIONS):
    block += "* **%s** — %s\n" % (k, ADDITIONS[k])
open(p, "w").write(s[:start] + block + "\n" + s[end:])
print("DESIGN.md section 6 additions:", len(ADDITIONS))
