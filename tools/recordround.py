#!/usr/bin/env python3
"""tools/recordround.py <suffix> <log>...: write confirmations (/tmp/confirm_<seed>.json) and seeddev results (log lines
'<seed> <ID> rc=<n> [VIOLATION ...]', in chronological order over the logs given) into seeded/<seed>/meta.json."""
import glob, json, os, re, sys
ROOT = os.path.dirname(os.path.dirname(os.path.abspath(__file__)))
suffix, logs = sys.argv[1], sys.argv[2:]
runs = {}
for f in logs:
    if not os.path.exists(f):
        continue
    for l in open(f):
        m = re.match(r'(C\d\d-\w) (C\d\d) rc=(\d)\s*(VIOLATION.*)?', l.strip())
        if m:
            runs.setdefault(m.group(1), []).append((int(m.group(3)), (m.group(4) or '').strip()))
for d in sorted(glob.glob(os.path.join(ROOT, "seeded", "*-" + suffix))):
    name = os.path.basename(d)
    m = json.load(open(d + "/meta.json"))
    cf = "/tmp/confirm_%s.json" % name
    if os.path.exists(cf):
        m["confirmed"] = '"confirmed": true' in open(cf).read()
        m["confirm_run"] = "tools/seedeval.py confirm (scratch worktree: patch applies, builds with and without -tags verif, existing tests pass, demonstration passes without / fails with the change)"
    rs = runs.get(name, [])
    pid = m["property"]
    m["checks"] = {pid: {
        "caught_by_quick_check_as_it_stood": bool(rs and rs[0][0] == 1),
        "caught_now": bool(rs and rs[-1][0] == 1) if rs else None,
        "line": rs[-1][1] if rs else "",
        "how_run": "tools/seeddev.sh %s: patch applied to a scratch worktree of /repo HEAD, ./check %s (quick) from a copy of /verif built against it; /repo itself untouched" % (name, pid),
        "runs": [{"rc": r, "line": l} for r, l in rs]}}
    json.dump(m, open(d + "/meta.json", "w"), indent=1)
    print(name, m.get("confirmed"), m["checks"][pid]["caught_now"])
