#!/bin/bash
# tools/seeddev.sh <seed> [ID...]: evaluate a seed without touching /repo: the patch is applied to a scratch worktree
# (/tmp/cleanrepo, created on demand) and the checks run from a copy of the current /verif working tree (/tmp/vdev)
# with VERIF_REPO pointing there. For use while something else is using /repo; results are not evidence.
set -u
seed=$1; shift
ids=${@:-$(python3 -c "import json;print(json.load(open('/verif/seeded/$seed/meta.json'))['property'])")}
[ -d /tmp/cleanrepo ] || git -C /repo worktree add -q --detach /tmp/cleanrepo HEAD
git -C /tmp/cleanrepo checkout -q --detach $(git -C /repo rev-parse HEAD) 2>/dev/null
git -C /tmp/cleanrepo checkout -q -- . && git -C /tmp/cleanrepo clean -fdq
rsync -a --delete --exclude .build --exclude replays --exclude .git --exclude harness/go.mod /verif/ /tmp/vdev/
[ -f /tmp/vdev/harness/go.mod ] || cp /verif/harness/go.mod /tmp/vdev/harness/go.mod
git -C /tmp/cleanrepo apply /verif/seeded/$seed/patch.diff
for id in $ids; do
  out=$(cd /tmp/vdev && VERIF_REPO=/tmp/cleanrepo ./check $id 2>&1); rc=$?
  echo "$seed $id rc=$rc $(echo "$out" | grep '^VIOLATION' | head -1)"
done
git -C /tmp/cleanrepo checkout -q -- . && git -C /tmp/cleanrepo clean -fdq
