#!/usr/bin/env python3
"""tools/seedimport.py <suffix> [ids...] : copy finished sub-agent outputs from /tmp/wt/<ID>/ into seeded/<ID>-<suffix>/"""
import json, os, shutil, subprocess, sys
suffix=sys.argv[1]
ids=sys.argv[2:] or ["C%02d"%i for i in range(1,21)]
for pid in ids:
    wt="/tmp/wt/"+pid
    if not (os.path.exists(wt+"/_out/patch.diff") and os.path.exists(wt+"/_out/notes.md")):
        print(pid,"not finished"); continue
    seed="/verif/seeded/%s-%s"%(pid,suffix)
    if os.path.exists(seed):
        print(pid,"already imported"); continue
    os.makedirs(seed)
    shutil.copy(wt+"/_out/patch.diff", seed+"/patch.diff")
    shutil.copy(wt+"/_out/notes.md", seed+"/notes.md")
    out=subprocess.check_output(["git","-C",wt,"status","--porcelain"],text=True)
    demos=[]
    for l in out.splitlines():
        if l.startswith("??") and "_out/" not in l:
            path=l[3:].strip()
            if os.path.isdir(os.path.join(wt,path)): continue
            fn=path.replace("/","_")
            shutil.copy(os.path.join(wt,path), os.path.join(seed,fn))
            demos.append({"file":fn,"dest":path})
    head=subprocess.check_output(["git","-C",wt,"rev-parse","--short","HEAD"],text=True).strip()
    meta={"property":pid,"origin":"fresh sub-agent given only the property record and a scratch worktree (commit %s)"%head,"demo":demos,
          "needs_to_manifest":"see notes.md","confirmed":None,"checks":{}}
    json.dump(meta,open(seed+"/meta.json","w"),indent=1)
    print(pid,"imported",[d["dest"] for d in demos])
