#!/usr/bin/env python3
"""Evaluate one seeded change.

  tools/seedeval.py confirm <seed-dir>      re-confirm the change in a scratch worktree under /tmp:
                                            applies, builds, existing tests pass, demo fails with / passes without
  tools/seedeval.py run <seed-dir> [ID...]  apply to /repo, run the quick checks (default: the property the seed
                                            names), restore /repo; prints which checks raised VIOLATION

A seed dir holds patch.diff, meta.json ({"property": "C07", "demo": [{"file": "zz_demo_test.go", "dest": "wasp/..."}], ...})
and the demonstration file(s).
"""
import json, os, shutil, subprocess, sys, tempfile, time

ROOT = os.path.dirname(os.path.dirname(os.path.abspath(__file__)))
ENV = dict(os.environ, GOFLAGS="-mod=mod", GOPROXY="off", GOSUMDB="off", GOTOOLCHAIN="local")


def sh(cmd, cwd=None, timeout=1800):
    p = subprocess.run(cmd, cwd=cwd, env=ENV, shell=isinstance(cmd, str), stdout=subprocess.PIPE, stderr=subprocess.STDOUT, text=True, timeout=timeout)
    return p.returncode, p.stdout


def confirm(seed):
    meta = json.load(open(os.path.join(seed, "meta.json")))
    wt = tempfile.mkdtemp(prefix="seedwt-", dir="/tmp")
    os.rmdir(wt)
    rc, out = sh(["git", "-C", "/repo", "worktree", "add", "-q", "--detach", wt, "HEAD"])
    if rc != 0:
        print(out)
        return 2
    res = {}
    try:
        for d in meta.get("demo", []):
            dst = os.path.join(wt, d["dest"])
            os.makedirs(os.path.dirname(dst), exist_ok=True)
            shutil.copy(os.path.join(seed, d["file"]), dst)
        pkgs = sorted({"./" + os.path.dirname(d["dest"]) + "/" for d in meta.get("demo", [])})
        run = meta.get("demo_run", "go test -vet=off -count=1 -run Demo " + " ".join(pkgs))
        rc, out = sh(run, cwd=wt)
        res["demo_without_change"] = "pass" if rc == 0 else "FAIL"
        res["demo_without_out"] = out[-600:]
        rc, out = sh(["git", "apply", os.path.join(os.path.abspath(seed), "patch.diff")], cwd=wt)
        res["applies"] = rc == 0
        if rc != 0:
            res["apply_out"] = out
        rc, out = sh("go build ./... && go build -tags verif ./...", cwd=wt)
        res["builds"] = rc == 0
        # existing tests must still pass: the demo files are moved away for this
        moved = []
        for d in meta.get("demo", []):
            p = os.path.join(wt, d["dest"])
            os.rename(p, p + ".away")
            moved.append(p)
        rc, out = sh("go test -vet=off -count=1 ./...", cwd=wt)
        res["existing_tests_pass"] = rc == 0
        if rc != 0:
            res["existing_out"] = out[-1500:]
        for p in moved:
            os.rename(p + ".away", p)
        rc, out = sh(run, cwd=wt)
        res["demo_with_change"] = "pass" if rc == 0 else "FAIL"
        res["demo_with_out"] = out[-600:]
    finally:
        sh(["git", "-C", "/repo", "worktree", "remove", "--force", wt])
    ok = res.get("applies") and res.get("builds") and res.get("existing_tests_pass") and res["demo_without_change"] == "pass" and res["demo_with_change"] == "FAIL"
    res["confirmed"] = bool(ok)
    print(json.dumps(res, indent=1))
    return 0 if ok else 1


def run(seed, ids):
    meta = json.load(open(os.path.join(seed, "meta.json")))
    ids = ids or [meta["property"]]
    rc, out = sh(["git", "-C", "/repo", "status", "--porcelain"])
    if out.strip():
        print("refusing: /repo is not clean:\n" + out)
        return 2
    rc, out = sh(["git", "-C", "/repo", "apply", os.path.join(os.path.abspath(seed), "patch.diff")])
    if rc != 0:
        print("patch does not apply:\n" + out)
        return 2
    results = {}
    try:
        for pid in ids:
            t0 = time.time()
            rc, out = sh([os.path.join(ROOT, "check"), pid, "--tier", os.environ.get("SEED_TIER", "quick")], cwd=ROOT, timeout=3600)
            viol = [l for l in out.splitlines() if l.startswith("VIOLATION")]
            results[pid] = dict(rc=rc, violation=bool(viol), line=(viol[0] if viol else ""), wall_s=round(time.time() - t0, 1))
            print(pid, results[pid], flush=True)
    finally:
        sh(["git", "-C", "/repo", "checkout", "--", "."])
        sh(["git", "-C", "/repo", "clean", "-fdq"])
    rc, out = sh(["git", "-C", "/repo", "status", "--porcelain"])
    if out.strip():
        print("WARNING: /repo not clean after restore:\n" + out)
    print(json.dumps(results))
    return 0


if __name__ == "__main__":
    if len(sys.argv) < 3:
        print(__doc__)
        sys.exit(2)
    if sys.argv[1] == "confirm":
        sys.exit(confirm(sys.argv[2]))
    sys.exit(run(sys.argv[2], sys.argv[3:]))
