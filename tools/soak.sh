#!/bin/bash
# tools/soak.sh <ID> <first-seed> <last-seed> [tier]: runs one check at many seeds; keeps the output and replay files of every run
# that does not exit 0 under soak-out/<ID>-<seed>/ (relative to the working directory). Honors VERIF_REPO.
cd "$(dirname "$0")/.."
id=$1; a=$2; b=$3; tier=${4:-quick}
mkdir -p soak-out
for s in $(seq $a $b); do
  out=$(VERIF_SEED=$s ./check $id --tier $tier 2>&1); rc=$?
  echo "$id seed=$s rc=$rc"
  if [ $rc -ne 0 ]; then
    d=soak-out/$id-$s; mkdir -p $d; echo "$out" > $d/output.txt; cp -r replays/$id $d/ 2>/dev/null
  fi
done
