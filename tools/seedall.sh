#!/bin/bash
# confirm + run the named property's quick check for every seed given (or all)
cd "$(dirname "$0")/.."
seeds=${@:-$(ls seeded)}
for s in $seeds; do
  c=$(tools/seedeval.py confirm seeded/$s 2>&1 | grep -c '"confirmed": true')
  r=$(tools/seedeval.py run seeded/$s 2>&1 | tail -1)
  echo "$s confirmed=$c $r"
  python3 - "$s" "$c" "$r" <<'PY'
import json,sys
s,c,r=sys.argv[1],sys.argv[2],sys.argv[3]
p='/verif/seeded/%s/meta.json'%s
m=json.load(open(p)); m['confirmed']=(c=='1')
try: m['checks'].update(json.loads(r))
except Exception as e: m['checks']['error']=r
json.dump(m,open(p,'w'),indent=1)
PY
done
