#!/bin/bash
# run every claimed check once (tier $1, default quick) and print id, exit code, wall time
cd "$(dirname "$0")/.."
tier=${1:-quick}
for id in $(./check --list); do
  t0=$(date +%s.%N)
  out=$(./check $id --tier $tier 2>&1); rc=$?
  t1=$(date +%s.%N)
  v=$(echo "$out" | grep -c '^VIOLATION')
  printf "%s rc=%d violations=%d %.1fs\n" $id $rc $v $(echo "$t1 - $t0" | bc)
  if [ $rc -ne 0 ]; then echo "$out" | tail -15; fi
done
