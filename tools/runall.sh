#!/bin/bash
# run every claimed check once (tier $1, default quick) and print id, exit code, wall time; the output and the replay
# files of every run that does not exit 0 are kept under soak-out/<ID>-<seed>-<tier>/ (the next run of that check
# clears replays/<ID>)
cd "$(dirname "$0")/.."
tier=${1:-quick}
for id in $(./check --list); do
  t0=$(date +%s.%N)
  out=$(./check $id --tier $tier 2>&1); rc=$?
  t1=$(date +%s.%N)
  v=$(echo "$out" | grep -c '^VIOLATION')
  printf "%s rc=%d violations=%d %.1fs\n" $id $rc $v $(echo "$t1 - $t0" | bc)
  if [ $rc -ne 0 ]; then
    echo "$out" | tail -15
    d=soak-out/$id-${VERIF_SEED:-0}-$tier; mkdir -p $d; echo "$out" > $d/output.txt; cp -r replays/$id $d/ 2>/dev/null
  fi
done
