#!/bin/bash
# tools/dev.sh <pkg> <go test args...>   (env SEED=<seed name> applies that seed's patch first)
# Runs a harness package from a copy of the current /verif working tree (/tmp/vdev$SLOT) against a scratch worktree of
# (SLOT=<n> selects an independent pair of scratch directories, so several can run at once)
# /repo's HEAD (/tmp/cleanrepo$SLOT), so that /repo itself is not needed. Development aid only.
pkg=$1; shift
export GOFLAGS=-mod=mod GOPROXY=off GOSUMDB=off GOTOOLCHAIN=local
[ -d /tmp/cleanrepo$SLOT ] || git -C /repo worktree add -q --detach /tmp/cleanrepo$SLOT HEAD
git -C /tmp/cleanrepo$SLOT checkout -q --detach $(git -C /repo rev-parse HEAD) 2>/dev/null
git -C /tmp/cleanrepo$SLOT checkout -q -- . && git -C /tmp/cleanrepo$SLOT clean -fdq
rsync -a --delete --exclude .build --exclude replays --exclude .git --exclude harness/go.mod /verif/ /tmp/vdev$SLOT/
[ -f /tmp/vdev$SLOT/harness/go.mod ] || cp /verif/harness/go.mod /tmp/vdev$SLOT/harness/go.mod
(cd /tmp/vdev$SLOT/harness && go mod edit -replace github.com/vx-labs/wasp/v4=/tmp/cleanrepo$SLOT)
if [ -n "$SEED" ]; then git -C /tmp/cleanrepo$SLOT apply /verif/seeded/$SEED/patch.diff || exit 3; fi
(cd /tmp/vdev$SLOT/harness/$pkg && VERIF_REPLAY_DIR=/tmp/vdev$SLOT-replays VERIF_OUT=/tmp/vdev$SLOT-out.json go test -tags verif . "$@" 2>&1 | grep -v '^WARNING conda')
rc=${PIPESTATUS[0]}
git -C /tmp/cleanrepo$SLOT checkout -q -- . && git -C /tmp/cleanrepo$SLOT clean -fdq
exit $rc
