#!/bin/bash
# tools/dev.sh <pkg> <go test args...>   (env SEED=<seed name> applies that seed's patch first)
# Runs a harness package from a copy of the current /verif working tree (/tmp/vdev) against a scratch worktree of
# /repo's HEAD (/tmp/cleanrepo), so that /repo itself is not needed. Development aid only.
pkg=$1; shift
export GOFLAGS=-mod=mod GOPROXY=off GOSUMDB=off GOTOOLCHAIN=local
[ -d /tmp/cleanrepo ] || git -C /repo worktree add -q --detach /tmp/cleanrepo HEAD
git -C /tmp/cleanrepo checkout -q --detach $(git -C /repo rev-parse HEAD) 2>/dev/null
git -C /tmp/cleanrepo checkout -q -- . && git -C /tmp/cleanrepo clean -fdq
rsync -a --delete --exclude .build --exclude replays --exclude .git --exclude harness/go.mod /verif/ /tmp/vdev/
[ -f /tmp/vdev/harness/go.mod ] || cp /verif/harness/go.mod /tmp/vdev/harness/go.mod
(cd /tmp/vdev/harness && go mod edit -replace github.com/vx-labs/wasp/v4=/tmp/cleanrepo)
if [ -n "$SEED" ]; then git -C /tmp/cleanrepo apply /verif/seeded/$SEED/patch.diff || exit 3; fi
(cd /tmp/vdev/harness/$pkg && VERIF_REPLAY_DIR=/tmp/vdev-replays VERIF_OUT=/tmp/vdev-out.json go test -tags verif . "$@" 2>&1 | grep -v '^WARNING conda')
rc=${PIPESTATUS[0]}
git -C /tmp/cleanrepo checkout -q -- . && git -C /tmp/cleanrepo clean -fdq
exit $rc
