#!/bin/bash
# tools/seedrun.sh <seed>...: run each seed's own property check against it (no re-confirmation) and record the result in meta.json
cd "$(dirname "$0")/.."
for s in "$@"; do
  r=$(tools/seedeval.py run seeded/$s 2>&1 | tail -1)
  echo "$s $r" | cut -c1-220
  python3 - "$s" "$r" <<'PY'
import json,sys
s,r=sys.argv[1],sys.argv[2]
p='/verif/seeded/%s/meta.json'%s
m=json.load(open(p))
try: m['checks'].update(json.loads(r))
except Exception as e: m['checks']['error']=r
json.dump(m,open(p,'w'),indent=1)
PY
done
