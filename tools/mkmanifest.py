#!/usr/bin/env python3
"""Regenerate /verif/MANIFEST.json from checks_config.py (claimed = has an entry with 'manifest')."""
import json, os, sys
ROOT = os.path.dirname(os.path.dirname(os.path.abspath(__file__)))
sys.path.insert(0, ROOT)
from checks_config import PROPS, HOOK_COMMITS, NOT_APPLICABLE, ADDITIONS

props = [json.loads(l) for l in open(os.path.join(ROOT, "properties.jsonl"))]
claimed = sorted(k for k, v in PROPS.items() if "manifest" in v)
m = {
    "version": 1,
    "setup_cmd": "./check --setup",
    "hooks": {
        "guard": "verif",
        "enable": "go test -c -tags verif in /verif/harness (its go.mod replaces github.com/vx-labs/wasp/v4 with /repo, so the current working tree is compiled)",
        "baseline_off_cmd": "cd /repo && GOPROXY=off GOSUMDB=off GOTOOLCHAIN=local go test -vet=off -count=1 ./...",
        "source_commits": HOOK_COMMITS,
        "add_only": True,
    },
    "engines": [{
        "name": "harness", "path": "harness", "serves_properties": claimed,
        "kind_free_text": "Go test packages: pgregory.net/rapid v1.3.0 properties (stateful generation, shrinking), exhaustive small-scope enumerators, native go fuzzing; driven by ./check (python3) which builds them against /repo's working tree, shards them over processes, merges evidence and maps outcomes to exit codes",
    }],
    "checks": [],
    "not_applicable": [],
    "notes": "Property-based testing / fuzzing only (DESIGN.md). ./check <ID> --tier quick|thorough; --replay <file> re-runs one saved case without the generator. Exit 2 = inconclusive (never a violation).",
}
for pid in claimed:
    mf = PROPS[pid]["manifest"]
    m["checks"].append({
        "property_id": pid,
        "quick_cmd": "./check %s --tier quick" % pid,
        "thorough_cmd": "./check %s --tier thorough" % pid,
        "evidence_file": "/verif/evidence/%s.json" % pid,
        "replay_cmd_template": "./check %s --replay {path}" % pid,
        "engine": "harness",
        "level_claimed": {"category": PROPS[pid]["level"], "text": mf["text"] + (" " + ADDITIONS[pid] if pid in ADDITIONS else ""), "design_ref": "DESIGN.md §6 " + pid},
        "level_note": mf["note"],
        "technique": mf["technique"],
    })
for p in props:
    if p["id"] not in claimed:
        m["not_applicable"].append({"property_id": p["id"], "reason": NOT_APPLICABLE.get(p["id"], "check not built yet (planned in DESIGN.md §6); this is not a statement that the technique cannot apply")})
json.dump(m, open(os.path.join(ROOT, "MANIFEST.json"), "w"), indent=1)
try:
    import jsonschema
    jsonschema.validate(m, json.load(open("/root/.vp/MANIFEST.schema.json")))
    print("MANIFEST.json written and valid; claimed:", " ".join(claimed))
except ImportError:
    print("MANIFEST.json written (jsonschema not importable; run with python3-vt to validate); claimed:", " ".join(claimed))
