// C14 — a publish reaches matching subscribers on other nodes exactly once.
//
// 2–3 complete in-process nodes joined by the real ScheduleMessage RPC (in-memory gRPC).
// Gossip is delivered by hand so that the case decides which subscriptions the publishing
// node knows; for every publish every subset of unreachable remote nodes is enumerated.
package c14

import (
	"encoding/json"
	"fmt"
	"sort"
	"testing"
	"time"

	"pgregory.net/rapid"
	"verifharness/internal/dst"
	"verifharness/internal/ev"
	"verifharness/internal/ref"
	"verifharness/internal/sim"
)

func TestMain(m *testing.M) { ev.Main(m, "C14") }

type Sub struct {
	Node   int    `json:"node"`
	Filter string `json:"filter"`
	QoS    int    `json:"qos"`
	Known  bool   `json:"known"` // the publishing node has learned of this subscription
}

type Pub struct {
	// Retain / Empty: the RETAIN flag and a zero-length payload (together: "forget the retained
	// message", which is still a message for the current subscribers on every node)
	Retain      bool   `json:"retain,omitempty"`
	Empty       bool   `json:"empty,omitempty"`
	Topic       string `json:"topic"`
	QoS         int    `json:"qos"`
	Unreachable []int  `json:"unreachable"` // node indices that cannot be reached for this publish
	// LostReply: node indices that execute the inter-node call of this publish but whose reply
	// is lost (the caller gets "unavailable" after the remote append happened): the message is
	// in that node's log once, the publisher is not acknowledged, and nothing is sent twice
	LostReply []int `json:"lost_reply,omitempty"`
	// Slow: node indices whose append of this publish takes SlowMs of real time and then
	// succeeds: a slow destination is not a failed one, and must not cost the others anything
	// IdleBeforeMs: so much time passes on the (virtual) wall clock before this publish
	IdleBeforeMs int64 `json:"idle_before_ms,omitempty"`
	Slow         []int `json:"slow,omitempty"`
	SlowMs       int   `json:"slow_ms,omitempty"`
}

type Case struct {
	Nodes   int   `json:"nodes"`
	PubNode int   `json:"pub_node"`
	Subs    []Sub `json:"subs"`
	Pubs    []Pub `json:"pubs"`
}

type failure struct {
	msg          string
	inconclusive bool
}

func run(c Case) (f *failure, nontrivial bool) {
	cl, err := sim.NewCluster()
	if err != nil {
		return &failure{err.Error(), true}, false
	}
	defer cl.Close()
	cl.AutoGossip = false
	for i := 0; i < c.Nodes; i++ {
		if _, err := cl.AddNode(sim.NodeOpts{}); err != nil {
			return &failure{err.Error(), true}, false
		}
	}
	settle := func() *failure {
		if err := cl.Settle(); err != nil {
			return &failure{err.Error(), true}
		}
		return nil
	}
	pubNode := cl.Nodes[c.PubNode]
	pub := cl.NewClient("pub")
	pub.AttachTo(pubNode)
	pub.Send(sim.EncConnect(sim.ConnectOpts{ClientID: "pub", KeepAlive: 600}))
	var subs []*sim.Client
	for i, s := range c.Subs {
		k := cl.NewClient(fmt.Sprintf("sub%d", i))
		k.AttachTo(cl.Nodes[s.Node])
		k.Send(sim.EncConnect(sim.ConnectOpts{ClientID: k.Name, KeepAlive: 600}))
		subs = append(subs, k)
	}
	if f := settle(); f != nil {
		return f, false
	}
	sid := make([]string, len(subs))
	for i, k := range subs {
		if !k.Accepted {
			return &failure{fmt.Sprintf("sub%d not accepted", i), false}, false
		}
		sid[i] = cl.Nodes[c.Subs[i].Node].Local.SessionOf(k.Conn)
		k.Send(sim.EncSubscribe(1, []string{c.Subs[i].Filter}, []byte{byte(c.Subs[i].QoS)}))
	}
	if f := settle(); f != nil {
		return f, false
	}
	// gossip: the publishing node learns exactly the subscriptions marked Known
	cl.CollectGossip()
	for gi, g := range cl.Gossip() {
		es, err := dst.Decode(g.Msg)
		if err != nil {
			continue
		}
		deliver := true
		for _, e := range es {
			if e.Kind == "sub" {
				for i := range c.Subs {
					if e.Key == "_default/"+c.Subs[i].Filter+"|"+sid[i] && !c.Subs[i].Known {
						deliver = false
					}
				}
			}
		}
		for _, n := range cl.Nodes {
			if n != pubNode || deliver {
				cl.DeliverGossip(gi, n)
			}
		}
	}
	if f := settle(); f != nil {
		return f, false
	}
	type mark struct{ appends, calls int }
	for pi, p := range c.Pubs {
		payload := fmt.Sprintf("msg-%d", pi)
		if p.IdleBeforeMs > 0 {
			cl.Clock.Advance(time.Duration(p.IdleBeforeMs) * time.Millisecond)
		}
		unreach := map[int]bool{}
		var ids []uint64
		for _, u := range p.Unreachable {
			if u != c.PubNode && u < c.Nodes {
				unreach[u] = true
				ids = append(ids, uint64(u+1))
			}
		}
		cl.SetUnreachable(ids...)
		for _, u := range p.Slow {
			if u != c.PubNode && u < c.Nodes && !unreach[u] {
				cl.Nodes[u].Log.DelayNext(1, time.Duration(p.SlowMs)*time.Millisecond)
			}
		}
		lost := map[int]bool{}
		for _, u := range p.LostReply {
			if u != c.PubNode && u < c.Nodes && !unreach[u] {
				lost[u] = true
				cl.Nodes[u].LoseReplies(1)
			}
		}
		// H = nodes hosting a matching subscription the publishing node knows of
		H := map[int]bool{}
		for _, s := range c.Subs {
			if ref.MatchS(s.Filter, p.Topic) && (s.Known || s.Node == c.PubNode) {
				H[s.Node] = true
			}
		}
		remoteInH, hitUnreach := false, false
		for n := range H {
			if n != c.PubNode {
				remoteInH = true
			}
			if unreach[n] || lost[n] {
				hitUnreach = true // the publisher must not be acknowledged
			}
		}
		if remoteInH || (len(unreach) > 0 && hitUnreach && len(H) > 1) {
			nontrivial = true
		}
		before := make([]int, len(subs))
		for i, k := range subs {
			before[i] = len(k.Publishes())
		}
		id := uint16(20000 + pi)
		if p.Empty {
			payload = ""
		}
		mark := make([]int, len(cl.Nodes))
		for ni, n := range cl.Nodes {
			mark[ni] = len(n.Log.Appends())
		}
		pub.Send(sim.EncPublish(p.Topic, []byte(payload), byte(p.QoS), p.Retain, false, id))
		if f := settle(); f != nil {
			return f, nontrivial
		}
		cl.SetUnreachable()
		for _, n := range cl.Nodes {
			n.LoseReplies(0)
			n.Log.DelayNext(0, 0)
		}
		// (1) log appends per node
		for ni, n := range cl.Nodes {
			cnt := 0
			for _, a := range n.Log.Appends()[mark[ni]:] {
				if a.Payload == payload && !a.Err {
					cnt++
				}
			}
			want := 0
			if H[ni] && !unreach[ni] {
				want = 1
			}
			if cnt != want {
				return &failure{fmt.Sprintf("publish %d (%q, unreachable %v, reply lost %v, known hosting nodes %v): appended %d time(s) to the log of node %d, want %d", pi, p.Topic, keys(unreach), keys(lost), keys(H), cnt, ni, want), false}, nontrivial
			}
		}
		// (2) acknowledgement iff every node of H was reached
		if p.QoS == 1 {
			acked := pub.Has(sim.PUBACK, id)
			if acked == hitUnreach {
				return &failure{fmt.Sprintf("publish %d (%q, unreachable %v, reply lost %v, known hosting nodes %v): PUBACK present=%v, want %v", pi, p.Topic, keys(unreach), keys(lost), keys(H), acked, !hitUnreach), false}, nontrivial
			}
		}
		// (3) deliveries: on every node that got the message, every local matching subscription once; nowhere else
		for i, k := range subs {
			got := 0
			for _, r := range k.Publishes()[before[i]:] {
				if r.Payload != payload || r.Topic != p.Topic {
					return &failure{fmt.Sprintf("publish %d: sub%d received a foreign or altered packet %v", pi, i, r), false}, nontrivial
				}
				got++
			}
			want := 0
			if H[c.Subs[i].Node] && !unreach[c.Subs[i].Node] && ref.MatchS(c.Subs[i].Filter, p.Topic) {
				want = 1
			}
			if got != want {
				return &failure{fmt.Sprintf("publish %d (%q, unreachable %v, reply lost %v, known hosting nodes %v): sub%d on node %d (filter %q, known=%v) received %d copies, want %d", pi, p.Topic, keys(unreach), keys(lost), keys(H), i, c.Subs[i].Node, c.Subs[i].Filter, c.Subs[i].Known, got, want), false}, nontrivial
			}
		}
	}
	if st := pub.Conn.State(); st.BrokerClosed {
		return &failure{"the publisher's connection was closed", false}, nontrivial
	}
	return nil, nontrivial
}

func keys(m map[int]bool) []int {
	var out []int
	for k, v := range m {
		if v {
			out = append(out, k)
		}
	}
	sort.Ints(out)
	return out
}

func check(t ev.TB, c Case, labels ...string) {
	ev.WriteCurrent("cross-node", c)
	f, nt := run(c)
	if f != nil && !f.inconclusive {
		again := 0
		for i := 0; i < 2 && again == 0; i++ {
			if f2, _ := run(c); f2 != nil && !f2.inconclusive {
				again++
			}
		}
		if again == 0 {
			ev.Count("unconfirmed_failures", 1)
			f = nil
		}
	}
	ev.Case(nt, c, append(labels, fmt.Sprintf("nodes:%d", c.Nodes))...)
	ev.Count("publishes_with_fault_subsets", int64(len(c.Pubs)))
	if f != nil && f.inconclusive {
		ev.Inconclusive(t, f.msg)
		return
	}
	if f != nil {
		ev.Fail(t, "cross-node", c, "%s", f.msg)
	}
}

var kinds = ev.Kinds{"cross-node": func(t ev.TB, raw json.RawMessage) {
	var c Case
	ev.Decode(t, raw, &c)
	check(t, c, "replay")
}}

func TestReplayFile(t *testing.T) { ev.ReplayFile(t, kinds) }
func TestRegress(t *testing.T)    { ev.Regress(t, kinds, "testdata/regress") }

var filters = []string{"#", "a/#", "a/+", "a/b", "+/b", "b", "a"}
var topics = []string{"a/b", "a", "b", "a/c", "c/b"}

func TestRandom(t *testing.T) {
	rapid.Check(t, func(t *rapid.T) {
		// the statement speaks of 2-3 nodes; a publish with three or four remote destinations walks
		// the same loop further
		c := Case{Nodes: rapid.SampledFrom([]int{2, 3, 2, 3, 2, 3, 4, 5}).Draw(t, "nodes")}
		c.PubNode = rapid.IntRange(0, c.Nodes-1).Draw(t, "pubNode")
		ns := rapid.IntRange(1, 5).Draw(t, "nsubs")
		if c.Nodes > 3 {
			ns = rapid.IntRange(c.Nodes-1, 7).Draw(t, "nsubsMany")
		}
		for i := 0; i < ns; i++ {
			c.Subs = append(c.Subs, Sub{Node: rapid.IntRange(0, c.Nodes-1).Draw(t, "node"), Filter: rapid.SampledFrom(filters).Draw(t, "filter"),
				QoS: rapid.IntRange(0, 1).Draw(t, "qos"), Known: rapid.IntRange(0, 3).Draw(t, "known") > 0})
		}
		var remotes []int
		for i := 0; i < c.Nodes; i++ {
			if i != c.PubNode {
				remotes = append(remotes, i)
			}
		}
		np := rapid.IntRange(1, 3).Draw(t, "npubs")
		for i := 0; i < np; i++ {
			topic := rapid.SampledFrom(topics).Draw(t, "topic")
			qos := rapid.IntRange(0, 1).Draw(t, "pqos")
			retain := rapid.IntRange(0, 2).Draw(t, "retain") == 0
			empty := rapid.IntRange(0, 2).Draw(t, "empty") == 0
			// every subset of the remote nodes is unreachable once
			for mask := 0; mask < 1<<len(remotes); mask++ {
				var u []int
				for b, r := range remotes {
					if mask&(1<<b) != 0 {
						u = append(u, r)
					}
				}
				c.Pubs = append(c.Pubs, Pub{Topic: topic, QoS: qos, Unreachable: u, Retain: retain, Empty: empty})
			}
			// and every non-empty subset of the remote nodes loses its reply once (the others reachable)
			for mask := 1; mask < 1<<len(remotes); mask++ {
				var u []int
				for b, r := range remotes {
					if mask&(1<<b) != 0 {
						u = append(u, r)
					}
				}
				c.Pubs = append(c.Pubs, Pub{Topic: topic, QoS: qos, LostReply: u})
			}
			// an outage that lasts: a remote node cannot be reached for many seconds (several failed
			// publishes, wall-clock time passing), then it is back: the very next publishes reach it
			if i == 0 && rapid.IntRange(0, 3).Draw(t, "outage") == 0 {
				r := []int{rapid.SampledFrom(remotes).Draw(t, "outageNode")}
				gap := int64(rapid.SampledFrom([]int{1000, 2600, 6000, 40000}).Draw(t, "outageGapMs"))
				c.Pubs = append(c.Pubs,
					Pub{Topic: topic, QoS: qos, Unreachable: r},
					Pub{Topic: topic, QoS: qos, Unreachable: r, IdleBeforeMs: gap},
					Pub{Topic: topic, QoS: qos, Unreachable: r, IdleBeforeMs: gap},
					Pub{Topic: topic, QoS: qos, IdleBeforeMs: int64(rapid.SampledFrom([]int{0, 100, 900}).Draw(t, "backAfterMs"))},
					Pub{Topic: topic, QoS: qos},
					Pub{Topic: topic, QoS: qos, IdleBeforeMs: 300})
			}
			// sometimes one remote node is slow (real time): everything still arrives, everywhere
			if len(remotes) >= 2 && i == 0 && rapid.IntRange(0, 5).Draw(t, "slow") == 0 {
				for rep := 0; rep < 3; rep++ { // which destination is visited first is a map-order matter
					c.Pubs = append(c.Pubs, Pub{Topic: topic, QoS: qos, Slow: []int{rapid.SampledFrom(remotes).Draw(t, "slowNode")}, SlowMs: rapid.SampledFrom([]int{300, 2600}).Draw(t, "slowMs")})
				}
			}
		}
		check(t, c)
	})
}
