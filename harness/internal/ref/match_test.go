package ref

import "testing"

// Examples from the MQTT 3.1.1 specification, section 4.7.
func TestSpecExamples(t *testing.T) {
	yes := [][2]string{
		{"sport/tennis/player1/#", "sport/tennis/player1"},
		{"sport/tennis/player1/#", "sport/tennis/player1/ranking"},
		{"sport/tennis/player1/#", "sport/tennis/player1/score/wimbledon"},
		{"sport/#", "sport"}, {"#", "sport"}, {"#", "a/b/c"},
		{"sport/tennis/+", "sport/tennis/player1"},
		{"sport/+", "sport/"}, {"+/+", "/finance"}, {"/+", "/finance"},
		{"+/tennis/#", "x/tennis"}, {"a//b", "a//b"}, {"a/+/b", "a//b"},
	}
	no := [][2]string{
		{"sport/tennis/+", "sport/tennis/player1/ranking"},
		{"sport/+", "sport"}, {"+", "/finance"}, {"a", "a/"}, {"a/", "a"},
		{"a/b", "a"}, {"a", "a/b"}, {"/x", "/y"}, {"a/#", "b"}, {"a/+", "a"},
	}
	for _, p := range yes {
		if !MatchS(p[0], p[1]) {
			t.Errorf("%q should match %q", p[0], p[1])
		}
	}
	for _, p := range no {
		if MatchS(p[0], p[1]) {
			t.Errorf("%q should not match %q", p[0], p[1])
		}
	}
}
