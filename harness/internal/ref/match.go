// Package ref holds the reference models the oracles compare the broker with.
package ref

import "strings"

// Split cuts a topic or filter into its levels ("a//b" has an empty middle level).
func Split(s string) []string { return strings.Split(s, "/") }

// Match is MQTT 3.1.1 topic matching on level lists: '#' (last level of the filter)
// matches the parent level and everything below it, '+' matches exactly one level
// (which may be empty), every other level must be equal, and lengths must agree.
func Match(filter, topic []string) bool {
	for i, f := range filter {
		if f == "#" {
			return true
		}
		if i >= len(topic) {
			return false
		}
		if f != "+" && f != topic[i] {
			return false
		}
	}
	return len(filter) == len(topic)
}

// MatchS is Match on strings.
func MatchS(filter, topic string) bool { return Match(Split(filter), Split(topic)) }

// ValidFilter: '#' only as the last level, wildcards fill a whole level.
func ValidFilter(f string) bool {
	ls := Split(f)
	for i, l := range ls {
		if l == "#" && i != len(ls)-1 {
			return false
		}
		if l != "#" && l != "+" && strings.ContainsAny(l, "#+") {
			return false
		}
	}
	return true
}
