// Package sim is the in-process broker cluster the L3 checks run against: fake
// connections with virtual deadlines, scripted MQTT clients with a codec of their own,
// complete broker nodes wired like cmd/wasp/main.go, hand-delivered gossip, fault
// injection and a quiescence detector.
package sim

import (
	"encoding/binary"
	"fmt"
)

// MQTT 3.1.1 control packet types.
const (
	CONNECT     = 1
	CONNACK     = 2
	PUBLISH     = 3
	PUBACK      = 4
	PUBREC      = 5
	PUBREL      = 6
	PUBCOMP     = 7
	SUBSCRIBE   = 8
	SUBACK      = 9
	UNSUBSCRIBE = 10
	UNSUBACK    = 11
	PINGREQ     = 12
	PINGRESP    = 13
	DISCONNECT  = 14
)

// This codec is deliberately independent of github.com/vx-labs/mqtt-protocol (which the
// broker uses): "topic and payload intact" must not compare the library with itself.

func remLen(n int) []byte {
	var out []byte
	for {
		b := byte(n % 128)
		n /= 128
		if n > 0 {
			b |= 0x80
		}
		out = append(out, b)
		if n == 0 {
			return out
		}
	}
}

func frame(typ byte, flags byte, body []byte) []byte {
	out := []byte{typ<<4 | flags&0x0f}
	out = append(out, remLen(len(body))...)
	return append(out, body...)
}

func lp(b []byte) []byte {
	out := make([]byte, 2, 2+len(b))
	binary.BigEndian.PutUint16(out, uint16(len(b)))
	return append(out, b...)
}

func u16(v uint16) []byte { return []byte{byte(v >> 8), byte(v)} }

// ConnectOpts describes a CONNECT packet.
type ConnectOpts struct {
	ClientID    string `json:"client_id"`
	KeepAlive   uint16 `json:"keepalive"`
	Username    string `json:"username,omitempty"`
	Password    string `json:"password,omitempty"`
	HasPassword bool   `json:"has_password,omitempty"` // send the password flag even when Password is empty
	Clean       bool   `json:"clean,omitempty"`
	WillTopic   string `json:"will_topic,omitempty"`
	WillPayload string `json:"will_payload,omitempty"`
	WillQoS     byte   `json:"will_qos,omitempty"`
	WillRetain  bool   `json:"will_retain,omitempty"`
}

func EncConnect(o ConnectOpts) []byte {
	body := lp([]byte("MQTT"))
	body = append(body, 4)
	var fl byte
	if o.Clean {
		fl |= 0x02
	}
	if o.WillTopic != "" {
		fl |= 0x04 | (o.WillQoS&3)<<3
		if o.WillRetain {
			fl |= 0x20
		}
	}
	if o.Password != "" || o.HasPassword {
		fl |= 0x40
	}
	if o.Username != "" {
		fl |= 0x80
	}
	body = append(body, fl)
	body = append(body, u16(o.KeepAlive)...)
	body = append(body, lp([]byte(o.ClientID))...)
	if o.WillTopic != "" {
		body = append(body, lp([]byte(o.WillTopic))...)
		body = append(body, lp([]byte(o.WillPayload))...)
	}
	if o.Username != "" {
		body = append(body, lp([]byte(o.Username))...)
	}
	if o.Password != "" || o.HasPassword {
		body = append(body, lp([]byte(o.Password))...)
	}
	return frame(CONNECT, 0, body)
}

func EncPublish(topic string, payload []byte, qos byte, retain, dup bool, id uint16) []byte {
	var fl byte = qos & 3 << 1
	if retain {
		fl |= 1
	}
	if dup {
		fl |= 8
	}
	body := lp([]byte(topic))
	if qos > 0 {
		body = append(body, u16(id)...)
	}
	body = append(body, payload...)
	return frame(PUBLISH, fl, body)
}

func EncSubscribe(id uint16, filters []string, qos []byte) []byte {
	body := u16(id)
	for i, f := range filters {
		body = append(body, lp([]byte(f))...)
		q := byte(0)
		if i < len(qos) {
			q = qos[i]
		}
		body = append(body, q)
	}
	return frame(SUBSCRIBE, 2, body)
}

func EncUnsubscribe(id uint16, filters []string) []byte {
	body := u16(id)
	for _, f := range filters {
		body = append(body, lp([]byte(f))...)
	}
	return frame(UNSUBSCRIBE, 2, body)
}

func EncAck(typ byte, id uint16) []byte {
	var fl byte
	if typ == PUBREL {
		fl = 2
	}
	return frame(typ, fl, u16(id))
}

func EncPingReq() []byte    { return frame(PINGREQ, 0, nil) }
func EncDisconnect() []byte { return frame(DISCONNECT, 0, nil) }

// Packet is a decoded broker→client packet.
type Packet struct {
	Type    byte   `json:"type"`
	Flags   byte   `json:"flags,omitempty"`
	ID      uint16 `json:"id,omitempty"`
	Topic   string `json:"topic,omitempty"`
	Payload string `json:"payload,omitempty"`
	QoS     byte   `json:"qos,omitempty"`
	Retain  bool   `json:"retain,omitempty"`
	Dup     bool   `json:"dup,omitempty"`
	Code    byte   `json:"code,omitempty"`  // CONNACK return code
	Codes   []byte `json:"codes,omitempty"` // SUBACK return codes
}

func (p Packet) String() string {
	switch p.Type {
	case PUBLISH:
		if len(p.Payload) > 64 {
			return fmt.Sprintf("PUBLISH{%q=%q…(%d bytes) q%d id%d r%v d%v}", p.Topic, p.Payload[:48], len(p.Payload), p.QoS, p.ID, p.Retain, p.Dup)
		}
		return fmt.Sprintf("PUBLISH{%q=%q q%d id%d r%v d%v}", p.Topic, p.Payload, p.QoS, p.ID, p.Retain, p.Dup)
	case CONNACK:
		return fmt.Sprintf("CONNACK{%d}", p.Code)
	default:
		return fmt.Sprintf("%s{id%d}", TypeName(p.Type), p.ID)
	}
}

func TypeName(t byte) string {
	names := []string{"RESERVED0", "CONNECT", "CONNACK", "PUBLISH", "PUBACK", "PUBREC", "PUBREL", "PUBCOMP", "SUBSCRIBE", "SUBACK", "UNSUBSCRIBE", "UNSUBACK", "PINGREQ", "PINGRESP", "DISCONNECT", "RESERVED15"}
	return names[t&15]
}

// Parse decodes as many complete packets as buf holds; rest is the undecoded tail.
// err reports bytes that are not a well-formed broker→client packet.
func Parse(buf []byte) (pkts []Packet, rest []byte, err error) {
	for {
		if len(buf) < 2 {
			return pkts, buf, nil
		}
		n, mult, i := 0, 1, 1
		for {
			if i >= len(buf) {
				return pkts, buf, nil
			}
			b := buf[i]
			n += int(b&0x7f) * mult
			mult *= 128
			i++
			if b&0x80 == 0 {
				break
			}
			if i > 4 {
				return pkts, buf, fmt.Errorf("malformed remaining length from broker")
			}
		}
		if len(buf) < i+n {
			return pkts, buf, nil
		}
		body := buf[i : i+n]
		p := Packet{Type: buf[0] >> 4, Flags: buf[0] & 0x0f}
		switch p.Type {
		case CONNACK:
			if len(body) != 2 {
				return pkts, buf, fmt.Errorf("CONNACK of %d bytes", len(body))
			}
			p.Code = body[1]
		case PUBLISH:
			p.QoS = p.Flags >> 1 & 3
			p.Retain = p.Flags&1 != 0
			p.Dup = p.Flags&8 != 0
			if len(body) < 2 {
				return pkts, buf, fmt.Errorf("short PUBLISH")
			}
			tl := int(binary.BigEndian.Uint16(body))
			if len(body) < 2+tl {
				return pkts, buf, fmt.Errorf("PUBLISH topic overruns the packet")
			}
			p.Topic = string(body[2 : 2+tl])
			off := 2 + tl
			if p.QoS > 0 {
				if len(body) < off+2 {
					return pkts, buf, fmt.Errorf("PUBLISH without packet id")
				}
				p.ID = binary.BigEndian.Uint16(body[off:])
				off += 2
			}
			p.Payload = string(body[off:])
		case PUBACK, PUBREC, PUBREL, PUBCOMP, UNSUBACK:
			if len(body) != 2 {
				return pkts, buf, fmt.Errorf("%s of %d bytes", TypeName(p.Type), len(body))
			}
			p.ID = binary.BigEndian.Uint16(body)
		case SUBACK:
			if len(body) < 2 {
				return pkts, buf, fmt.Errorf("short SUBACK")
			}
			p.ID = binary.BigEndian.Uint16(body)
			p.Codes = append([]byte{}, body[2:]...)
		case PINGRESP:
			if len(body) != 0 {
				return pkts, buf, fmt.Errorf("PINGRESP with a body")
			}
		default:
			return pkts, buf, fmt.Errorf("unexpected packet type %d from broker", p.Type)
		}
		pkts = append(pkts, p)
		buf = buf[i+n:]
	}
}
