package sim

import (
	"errors"
	"fmt"
	"hash/fnv"
	"os"
	"sort"
	"sync"
	"sync/atomic"
	"time"

	"github.com/golang/protobuf/proto"
	"github.com/vx-labs/wasp/v4/wasp"
	"github.com/vx-labs/wasp/v4/wasp/api"
	"github.com/vx-labs/wasp/v4/wasp/distributed"
)

// ErrInconclusive is returned when quiescence was not reached within the wall-clock
// budget. It is never a property violation.
var ErrInconclusive = errors.New("VERIF-INCONCLUSIVE: quiescence not reached within the budget")

// ErrStalled is the special case of ErrInconclusive in which, for the last StallAfter of
// real time, work was pending (bytes unread, a connection not waiting for input, a publish
// queued) and yet nothing moved at all: no byte read or written, no append, no gossip. A
// busy or starved broker keeps moving; one that is blocked on a lock nobody releases does
// not. Only C18 ("cannot stall other clients") turns it into a verdict, after re-execution.
var ErrStalled = fmt.Errorf("%w: no progress at all while work was pending", ErrInconclusive)

// GossipMsg is one broadcast collected from a node's transmit queue.
type GossipMsg struct {
	From uint64
	Msg  []byte
	Sent map[uint64]int // deliveries per destination so far
	// Dead: the sender failed before this broadcast got everywhere; what had not been
	// delivered by then is lost (also when a node with the same id comes back later)
	Dead bool
}

// Cluster owns the nodes, the clients, the virtual clock, the gossip in flight and the
// fault plan.
type Cluster struct {
	stuck   string // set when a node did not return from a merge (see DeliverGossip)
	Clock   Clock
	Nodes   []*Node
	Clients []*Client
	TmpRoot string

	// AutoGossip: Settle delivers every collected broadcast to every other live node
	// (the default). Off: the case decides (DeliverGossip...).
	AutoGossip   bool
	SettleBudget time.Duration
	StallAfter   time.Duration // default: 10 s, at most 2/3 of SettleBudget

	activity         int64
	restarts         int
	seq              int64
	unreachableCalls int64
	mu               sync.Mutex
	unreachable      map[uint64]bool
	calls            []CallRec
	gossip           []*GossipMsg
	seenGossip       map[uint64]bool
	ended            map[string]bool // session ids whose serve loop + teardown are over
	// idSuffix makes session ids unique across the clusters of one process: goroutines of an
	// earlier case may still be finishing their teardown when the next case has started, and
	// their "session ended" notifications must not be taken for sessions of the new cluster
	idSuffix string
}

var clusterSeq int64

var hookOnce sync.Once
var current atomic.Value // *Cluster

// NewCluster creates an empty cluster with its own temp root.
func NewCluster() (*Cluster, error) {
	root, err := os.MkdirTemp("", "wasp-sim")
	if err != nil {
		return nil, err
	}
	cl := &Cluster{TmpRoot: root, AutoGossip: true, SettleBudget: 30 * time.Second,
		unreachable: map[uint64]bool{}, seenGossip: map[uint64]bool{}, ended: map[string]bool{}}
	if k := atomic.AddInt64(&clusterSeq, 1); k > 1 {
		cl.idSuffix = fmt.Sprintf("~%d", k)
	}
	current.Store(cl)
	hookOnce.Do(func() {
		// the broker's injectable wall clock follows the virtual clock of the current cluster, so
		// that whatever the broker remembers by wall-clock time can be aged by idle steps
		epoch := time.Now()
		// the stamps of the replicated state too: real time (so that no two stamps are equal) plus
		// the virtual offset (so that records can grow hours old)
		distributed.VerifSetClock(func() int64 {
			if c, ok := current.Load().(*Cluster); ok && c != nil {
				return time.Now().UnixNano() + int64(c.Clock.Now())
			}
			return time.Now().UnixNano()
		})
		wasp.Clock = func() time.Time {
			if c, ok := current.Load().(*Cluster); ok && c != nil {
				return epoch.Add(c.Clock.Now())
			}
			return time.Now()
		}
		wasp.VerifOnSessionEnded.Store(func(id string) {
			if c, ok := current.Load().(*Cluster); ok && c != nil {
				c.mu.Lock()
				c.ended[id] = true
				c.mu.Unlock()
				atomic.AddInt64(&c.activity, 1)
			}
		})
	})
	return cl, nil
}

// Close stops every node and removes the temp root.
func (cl *Cluster) Close() {
	for _, c := range cl.Clients {
		c.Conn.ClientClose()
	}
	for _, n := range cl.Nodes {
		n.Stop()
	}
	os.RemoveAll(cl.TmpRoot)
}

// SessionEnded reports whether the serve loop of that session has finished teardown.
func (cl *Cluster) SessionEnded(id string) bool {
	cl.mu.Lock()
	defer cl.mu.Unlock()
	return cl.ended[id]
}

// SetUnreachable marks peers that inter-node calls cannot reach.
func (cl *Cluster) SetUnreachable(ids ...uint64) {
	cl.mu.Lock()
	cl.unreachable = map[uint64]bool{}
	for _, id := range ids {
		cl.unreachable[id] = true
	}
	cl.mu.Unlock()
}

// Calls returns the inter-node call attempts so far.
func (cl *Cluster) Calls() []CallRec {
	cl.mu.Lock()
	defer cl.mu.Unlock()
	return append([]CallRec{}, cl.calls...)
}

// ---- gossip ---------------------------------------------------------------------------------

func msgHash(from uint64, b []byte) uint64 {
	h := fnv.New64a()
	h.Write([]byte{byte(from)})
	h.Write(b)
	return h.Sum64()
}

// CollectGossip drains every live node's transmit queue (each broadcast is handed out up
// to RetransmitMult times by memberlist's queue; duplicates are folded here and
// re-introduced deliberately by the schedule). Returns how many new messages appeared.
func (cl *Cluster) CollectGossip() int {
	n := 0
	for _, node := range cl.Nodes {
		if node.Down {
			continue
		}
		for {
			bs := node.Q.GetBroadcasts(0, 1<<30)
			if len(bs) == 0 {
				break
			}
			for _, b := range bs {
				h := msgHash(node.ID, b)
				cl.mu.Lock()
				if !cl.seenGossip[h] {
					cl.seenGossip[h] = true
					cl.gossip = append(cl.gossip, &GossipMsg{From: node.ID, Msg: append([]byte{}, b...), Sent: map[uint64]int{}})
					n++
				}
				cl.mu.Unlock()
			}
		}
	}
	if n > 0 {
		atomic.AddInt64(&cl.activity, int64(n))
	}
	return n
}

// Gossip returns the collected messages (shared pointers; use under the harness's serial control).
func (cl *Cluster) Gossip() []*GossipMsg { return cl.gossip }

// DeliverGossip delivers message i to node `to` through the real NotifyMsg.
func (cl *Cluster) DeliverGossip(i int, to *Node) {
	g := cl.gossip[i]
	if to.Down || to.ID == g.From {
		return
	}
	if from := cl.NodeByID(g.From); g.Dead || from != nil && from.Down {
		// memberlist declares a node dead only after seconds of silence: its broadcasts do not
		// arrive after the survivors have been told about the failure
		return
	}
	g.Sent[to.ID]++
	// the merge runs on memberlist's packet goroutine in the broker; here on a goroutine of its
	// own, so that a node that never returns from a merge (a lock that is never released) is a
	// verdict of Settle ("stalled") and not a hang of the harness
	done := make(chan struct{})
	msg := g.Msg
	go func() {
		defer close(done)
		to.State.Distributor().NotifyMsg(msg)
	}()
	select {
	case <-done:
	case <-time.After(15 * time.Second):
		cl.mu.Lock()
		if cl.stuck == "" {
			cl.stuck = fmt.Sprintf("node %s has not returned from merging a broadcast for 15 s", to.Name)
		}
		cl.mu.Unlock()
	}
	atomic.AddInt64(&cl.activity, 1)
}

// DeliverAllGossip delivers every message that a live node has not received yet; returns
// the number of deliveries.
func (cl *Cluster) DeliverAllGossip() int {
	cl.CollectGossip()
	k := 0
	for i, g := range cl.gossip {
		for _, n := range cl.Nodes {
			if from := cl.NodeByID(g.From); g.Dead || from != nil && from.Down {
				continue
			}
			if !n.Down && n.ID != g.From && g.Sent[n.ID] == 0 {
				cl.DeliverGossip(i, n)
				k++
			}
		}
	}
	return k
}

// AntiEntropy: a node that came back with empty state has missed what was gossiped to its first
// life (a broadcast is sent to a member a bounded number of times, and the sender does not know
// that the member lost its memory). memberlist repairs that with its periodic push/pull exchange
// between random pairs of members; "all gossip delivered" therefore includes one exchange between
// every pair of live nodes once a node has been restarted. A no-op in clusters without restarts.
func (cl *Cluster) AntiEntropy() {
	if cl.restarts == 0 {
		return
	}
	for i, a := range cl.Nodes {
		for _, b := range cl.Nodes[i+1:] {
			if !a.Down && !b.Down {
				cl.FullSync(a, b)
			}
		}
	}
}

// FullSync exchanges full-state snapshots between two nodes (push/pull).
func (cl *Cluster) FullSync(a, b *Node) {
	sa := a.State.Distributor().LocalState(false)
	sb := b.State.Distributor().LocalState(false)
	b.State.Distributor().MergeRemoteState(sa, false)
	a.State.Distributor().MergeRemoteState(sb, false)
	atomic.AddInt64(&cl.activity, 1)
}

// FailNode marks a node as failed: its connections are cut (clients see nothing more from
// it), peers cannot reach it, and every survivor is told through NotifyGossipLeave, as
// memberlist would after its failure detector fired.
func (cl *Cluster) FailNode(n *Node) {
	cl.mu.Lock()
	n.Down = true
	cl.mu.Unlock()
	for _, c := range cl.Clients {
		if c.Node == n {
			c.Dead = true
		}
	}
	n.Stop()
	for _, g := range cl.gossip {
		if g.From == n.ID {
			g.Dead = true
		}
	}
	for _, s := range cl.Nodes {
		if !s.Down {
			s.Members.NotifyGossipLeave(n.ID)
		}
	}
	atomic.AddInt64(&cl.activity, 1)
}

// ---- quiescence -----------------------------------------------------------------------------

func (cl *Cluster) signature() int64 {
	s := atomic.LoadInt64(&cl.activity)
	q, p := wasp.VerifPublishCounters()
	s += q*7 + p*13
	for _, n := range cl.Nodes {
		s += n.Log.sig()
	}
	return s
}

// quiet checks conditions 1–3 and 5 of DESIGN.md §3; why explains the first obstacle.
func (cl *Cluster) quiet() (ok bool, why string) {
	for _, c := range cl.Clients {
		if c.Node != nil && c.Node.Down {
			continue
		}
		st := c.Conn.State()
		if st.BrokerClosed || c.Refused || !c.Attached {
			continue
		}
		sid := ""
		if c.Node != nil {
			sid = c.Node.Local.SessionOf(c.Conn)
		}
		if sid != "" && cl.SessionEnded(sid) {
			continue
		}
		if st.ClientClosed {
			// the broker must notice: either setup fails (it closes) or the session ends
			return false, fmt.Sprintf("client %s closed its end; broker has not finished with it", c.Name)
		}
		if st.Pending > 0 {
			return false, fmt.Sprintf("client %s: %d bytes not yet read by the broker", c.Name, st.Pending)
		}
		if !st.Parked {
			return false, fmt.Sprintf("client %s: broker is not waiting for input", c.Name)
		}
		if st.AwaitingAnswer {
			return false, fmt.Sprintf("client %s: the broker has read a complete first packet and has neither answered nor closed yet", c.Name)
		}
	}
	q, p := wasp.VerifPublishCounters()
	if q != p {
		return false, fmt.Sprintf("publishes queued %d != processed %d", q, p)
	}
	for _, n := range cl.Nodes {
		if n.Down {
			continue
		}
		if !n.Log.caughtUp() {
			return false, fmt.Sprintf("node %s: log consumer behind", n.Name)
		}
	}
	return true, ""
}

// Settle runs clients and (optionally) gossip until nothing moves any more.
func (cl *Cluster) Settle() error {
	cl.mu.Lock()
	stuck := cl.stuck
	cl.mu.Unlock()
	if stuck != "" {
		return fmt.Errorf("%w (%s)", ErrStalled, stuck)
	}
	deadline := time.Now().Add(cl.SettleBudget)
	stable := 0
	last := int64(-1)
	flushed := false
	why := ""
	lastMove := time.Now()
	for {
		progressed := false
		for _, c := range cl.Clients {
			if c.Pump() {
				progressed = true
			}
		}
		if cl.AutoGossip {
			if cl.DeliverAllGossip() > 0 {
				progressed = true
			}
		} else if cl.CollectGossip() > 0 {
			progressed = true
		}
		cl.mu.Lock()
		stuck = cl.stuck
		cl.mu.Unlock()
		if stuck != "" {
			return fmt.Errorf("%w (%s)", ErrStalled, stuck)
		}
		var ok bool
		ok, why = cl.quiet()
		sig := cl.signature()
		if ok && !progressed && sig == last {
			stable++
		} else {
			stable = 0
			if sig != last || progressed {
				flushed = false
			}
		}
		if sig != last || progressed {
			lastMove = time.Now()
		}
		last = sig
		if stable >= 3 {
			if flushed {
				return nil
			}
			// writer queues drained? push a sentinel through each and look again
			for _, n := range cl.Nodes {
				if n.Down {
					continue
				}
				if !n.flushWriter(time.Until(deadline)) {
					return fmt.Errorf("%w (writer of %s did not drain)", ErrInconclusive, n.Name)
				}
			}
			flushed = true
			stable = 0
			last = cl.signature()
			continue
		}
		if time.Now().After(deadline) {
			stallAfter := cl.StallAfter
			if stallAfter == 0 {
				stallAfter = 10 * time.Second
			}
			if m := cl.SettleBudget * 2 / 3; stallAfter > m {
				stallAfter = m
			}
			if !ok && time.Since(lastMove) >= stallAfter {
				return fmt.Errorf("%w for %v (%s)", ErrStalled, time.Since(lastMove).Round(time.Second), why)
			}
			return fmt.Errorf("%w (%s)", ErrInconclusive, why)
		}
		time.Sleep(200 * time.Microsecond)
	}
}

// Idle advances the virtual clock by d and settles.
func (cl *Cluster) Idle(d time.Duration) error {
	cl.Clock.Advance(d)
	return cl.Settle()
}

// NodeByID finds a node.
func (cl *Cluster) NodeByID(id uint64) *Node {
	for _, n := range cl.Nodes {
		if n.ID == id {
			return n
		}
	}
	return nil
}

// SortedSessions lists session ids visible on a node (helper for oracles).
func SortedSessions(n *Node) []string {
	var out []string
	for _, s := range n.State.SessionMetadatas().All() {
		out = append(out, s.SessionID)
	}
	sort.Strings(out)
	return out
}

// SnapshotDiff decodes the full-state snapshot of every live node and compares them entry by
// entry, removals and every field included (will topic, retain flag, stamps). Nodes that have
// received the same updates hold the same records; a record that one node altered in place
// after announcing it shows here and nowhere else. "" = all equal.
func (cl *Cluster) SnapshotDiff() string {
	type view map[string]string
	var names []string
	var views []view
	for _, n := range cl.Nodes {
		if n.Down {
			continue
		}
		ev := &api.StateBroadcastEvent{}
		if err := proto.Unmarshal(n.State.Distributor().LocalState(false), ev); err != nil {
			return fmt.Sprintf("node %s: snapshot does not decode: %v", n.Name, err)
		}
		v := view{}
		for _, x := range ev.SessionMetadatas {
			v["session "+x.SessionID] = proto.CompactTextString(x)
		}
		for _, x := range ev.Subscriptions {
			v[fmt.Sprintf("subscription %s|%s", x.Pattern, x.SessionID)] = proto.CompactTextString(x)
		}
		for _, x := range ev.RetainedMessages {
			if x.Publish != nil {
				v[fmt.Sprintf("retained %s", x.Publish.Topic)] = proto.CompactTextString(x)
			}
		}
		names = append(names, n.Name)
		views = append(views, v)
	}
	for i := 1; i < len(views); i++ {
		keys := map[string]bool{}
		for k := range views[0] {
			keys[k] = true
		}
		for k := range views[i] {
			keys[k] = true
		}
		var ks []string
		for k := range keys {
			ks = append(ks, k)
		}
		sort.Strings(ks)
		for _, k := range ks {
			if views[0][k] != views[i][k] {
				return fmt.Sprintf("record %q: node %s holds {%s}, node %s holds {%s}", k, names[0], views[0][k], names[i], views[i][k])
			}
		}
	}
	return ""
}
