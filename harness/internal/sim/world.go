package sim

import (
	"fmt"
	"sort"
	"strings"
	"time"

	"verifharness/internal/ref"
)

// Step is one scripted operation of an L3 scenario, as plain data.
//
//	connect    client C connects to node Node with ClientID/KeepAlive/MP (mount point = username)/Will
//	sub/unsub  one SUBSCRIBE / UNSUBSCRIBE packet with Filters (QoS per filter)
//	pub        PUBLISH Topic/Payload (PQoS, Retain)
//	ping       PINGREQ
//	disconnect DISCONNECT packet
//	close      the client drops the connection
//	subclose   SUBSCRIBE (Filters) immediately followed by dropping the connection
//	pubclose   QoS 1 PUBLISH immediately followed by dropping the connection
//	idle       virtual time advances by IdleMs
//	raw        Bytes are written as they are
//	connectclose client C sends CONNECT (fields as for connect) and drops the connection without reading the CONNACK
//	noack      client C stops acknowledging deliveries (they stay open and are re-sent at every sweep)
//	pub2hold   client C publishes at QoS 2 with packet identifier PID and keeps the PUBREL back
//	pub2rel    client C releases the exchange PID it holds (PUBREL): only now is the message forwarded
//	failrestart node Node fails and comes back under its id at once (no waiting for the survivors' purge)
//	wait       IdleMs of REAL time pass
//	restartnode a failed node comes back under the same node id (empty state), see Cluster.RestartNode
//	failnode   node Node fails; survivors are notified
//	sweep      every node's in-flight table is swept with now = far future (all pending entries expire)
//	gossip1    (manual gossip mode) deliver pending broadcast number C to node Node
//	gossipall  (manual gossip mode) deliver every pending broadcast everywhere, repeatedly, until none is left
//	pubpart    client C writes only the first Split bytes of a PUBLISH (Topic/Payload + Pad filler bytes, PQoS); the rest follows with pubrest
//	           (or before the client's next own step): a packet that arrives in two TCP segments, other things happening in between
//	pubrest    the remainder of client C's pending partial PUBLISH
//	churn      IdleMs (a count here) throw-away clients connect to node Node at the same moment and disconnect cleanly
//	recycle    C throw-away subscribers of mount point MP on node Node stop acknowledging, are sent one QoS 1 message (Topic/Payload) and drop their
//	           connections; IdleMs throw-away clients of mount point ClientID (another tenant; no subscriptions) connect; every in-flight
//	           entry expires; the newcomers must have been sent nothing
//	rpcunsub   an operator removes client C's subscription Filters[0] through node Node's DeleteSubscription RPC
//	rpcclear   an operator clears the retained message of Topic in mount point MP through node Node's DeleteRetainedMessage RPC
type Step struct {
	Op        string   `json:"op"`
	C         int      `json:"c,omitempty"`
	Node      int      `json:"node,omitempty"`
	ClientID  string   `json:"client_id,omitempty"`
	KeepAlive uint16   `json:"keepalive,omitempty"`
	MP        string   `json:"mp,omitempty"`
	Will      *Will    `json:"will,omitempty"`
	Filters   []string `json:"filters,omitempty"`
	QoS       []int    `json:"qos,omitempty"`
	Topic     string   `json:"topic,omitempty"`
	Payload   string   `json:"payload,omitempty"`
	PQoS      byte     `json:"pqos,omitempty"`
	Retain    bool     `json:"retain,omitempty"`
	Dup       bool     `json:"dup,omitempty"` // pub: the DUP flag is set (a client resending after a reconnect)
	IdleMs    int64    `json:"idle_ms,omitempty"`
	Bytes     []byte   `json:"bytes,omitempty"`
	PID       uint16   `json:"pid,omitempty"`    // pub2hold / pub2rel: the client-chosen packet identifier
	Victim    int      `json:"victim,omitempty"` // stallpub: the client that has stopped reading
	Pad       int      `json:"pad,omitempty"`    // pubpart: the payload is extended by so many filler bytes
	Split     int      `json:"split,omitempty"`  // pubpart: bytes of the packet written at first
}

type Will struct {
	Topic   string `json:"topic"`
	Payload string `json:"payload"`
	QoS     byte   `json:"qos"`
	Retain  bool   `json:"retain,omitempty"`
}

// Sess is the model of one client connection / session.
type Sess struct {
	K         *Client
	Node      *Node
	MP        string
	ClientID  string
	KeepAlive uint16
	Will      *Will
	Connected bool            // CONNECT was sent
	Alive     bool            // model: session established and not ended
	EndCause  string          // why the model thinks it ended ("" while alive)
	Subs      map[string]byte // active filters (as the client wrote them)
	Expect    map[string]int  // expected PUBLISH multiset: key(topic,payload,retain) -> count
	SessionID string
	Deadline  time.Duration // model of the keep-alive allowance (virtual time)
	// DeadlineMax >= Deadline: the latest instant the allowance can reach when it is not known
	// whether the broker wrote to the session (hand-scheduled gossip: whether a publish is
	// routed to a session depends on what the publisher's node has heard). The session must be
	// alive before Deadline and gone after DeadlineMax; idle steps never end in between.
	DeadlineMax time.Duration
	nextPID     uint16
	connectSeq  int
	// Displaced: a newer session took over the client id; this one may still be served
	// until its next keep-alive exchange, so deliveries to it are not judged.
	Displaced bool
	// held: the client's own QoS 2 publishes waiting for its PUBREL (packet id -> message)
	held map[uint16]Step
	// NoAck: from step "noack" on the client reads but acknowledges nothing: QoS 1/2 deliveries
	// to it stay open and are sent again at every sweep. Deliveries are then judged as a set:
	// every expected message at least as often as expected, nothing unexpected (a copy whose
	// topic or payload differs from the original is something unexpected)
	NoAck bool
	// tail: the rest of a PUBLISH of which only the first bytes have been written (pubpart)
	tail     []byte
	tailStep Step
	tailID   uint16
}

// World = Cluster + the reference model of who must have received what.
type World struct {
	Cl       *Cluster
	S        []*Sess
	Retained map[string]map[string]string // mount point -> topic -> payload
	connects int
	// Ambiguous: the script reached a point where two outcomes are both legitimate for the
	// delivery model (see Apply "idle"); CheckDeliveries stops judging.
	Ambiguous  bool
	churned    int
	everFailed bool // a node has failed at some point (its last broadcasts may be lost for some)
	// Deaf: mount points whose delivery expectations are switched off (used by checks that
	// only look at part of the picture).
	notes []string
}

func pkey(topic, payload string, retain bool) string {
	r := "live"
	if retain {
		r = "retained"
	}
	return topic + "\x00" + payload + "\x00" + r
}

func showKey(k string) string {
	p := strings.Split(k, "\x00")
	return fmt.Sprintf("%s=%.30q(%s)", p[0], p[1], p[2])
}

// NewWorld builds a cluster with nNodes nodes and nClients unconnected clients.
func NewWorld(nNodes, nClients int) (*World, error) {
	cl, err := NewCluster()
	if err != nil {
		return nil, err
	}
	for i := 0; i < nNodes; i++ {
		if _, err := cl.AddNode(NodeOpts{}); err != nil {
			cl.Close()
			return nil, err
		}
	}
	w := &World{Cl: cl, Retained: map[string]map[string]string{}}
	for i := 0; i < nClients; i++ {
		w.S = append(w.S, &Sess{K: cl.NewClient(fmt.Sprintf("c%d", i)), Subs: map[string]byte{}, Expect: map[string]int{}, nextPID: 20000})
	}
	return w, nil
}

func (w *World) Close() { w.Cl.Close() }

func (w *World) mp(s *Sess) string {
	if s.MP == "" {
		return "_default"
	}
	return s.MP
}

// modelPublish adds the expected live deliveries of one publish inside a mount point.
func (w *World) modelPublish(mp, topic, payload string, retain bool, fromNode *Node) {
	if retain {
		if w.Retained[mp] == nil {
			w.Retained[mp] = map[string]string{}
		}
		if payload == "" {
			delete(w.Retained[mp], topic)
		} else {
			w.Retained[mp][topic] = payload
		}
	}
	for _, s := range w.S {
		if !s.Alive || w.mp(s) != mp || s.Node.Down {
			continue
		}
		if !w.Cl.AutoGossip || w.Ambiguous {
			// the publisher's node may or may not know this session's filters (and may still know
			// filters it has dropped) — or it is not certain that this message is published at all
			// (the ambiguous will of a displaced session): a write to the session, which re-arms
			// its allowance, is possible but not certain
			if m := w.Cl.Clock.Now() + 2*time.Duration(s.KeepAlive)*time.Second; m > s.DeadlineMax {
				s.DeadlineMax = m
			}
			continue
		}
		for f := range s.Subs {
			if ref.MatchS(f, topic) {
				s.Expect[pkey(topic, payload, false)]++
				w.touch(s) // the broker re-arms the allowance when it writes to a session
			}
		}
	}
}

// touch re-arms the model's keep-alive allowance: twice the keep-alive from now.
func (w *World) touch(s *Sess) {
	s.Deadline = w.Cl.Clock.Now() + 2*time.Duration(s.KeepAlive)*time.Second
	s.DeadlineMax = s.Deadline
}

// endSession updates the model when a session ends. cause ∈ disconnect close timeout
// protocol displaced nodefail.
func (w *World) endSession(s *Sess, cause string) {
	if !s.Alive {
		return
	}
	s.Alive = false
	s.EndCause = cause
	s.Subs = map[string]byte{}
	// a session whose client id resolves to another live session has been taken over: the
	// broker ends it without publishing its will
	takenOver := false
	for _, o := range w.S {
		if o != s && o.Alive && o.connectSeq > s.connectSeq && o.ClientID == s.ClientID && w.mp(o) == w.mp(s) {
			takenOver = true
		}
	}
	if s.Will != nil && cause == "nodefail" && s.Displaced && !takenOver {
		// a displaced session (its record went when it was taken over) that outlived its
		// displacer and then loses its node: the survivors publish wills from the records of the
		// failed peer and have none for it, whereas its own node would have published the will
		// at teardown. Displacement is not among the causes for which C13 promises a will;
		// neither outcome is judged, and deliveries are not judged from here on.
		w.Ambiguous = true
		return
	}
	if s.Will != nil && cause != "disconnect" && cause != "displaced" && !takenOver {
		w.modelPublish(w.mp(s), s.Will.Topic, s.Will.Payload, s.Will.Retain, s.Node)
	}
}

// Apply performs one step on the real cluster and on the model, then settles.
// The returned string reports an immediate protocol-level surprise ("" = none);
// inconclusive is set when quiescence was not reached.
func (w *World) Apply(st Step) (problem string, inconclusive bool) {
	defer func() {
		// broker code that the harness drives synchronously (expiry sweeps) runs on this
		// goroutine: in the broker it runs on the writer's ticker goroutine, where a panic
		// takes the whole process down
		if r := recover(); r != nil {
			problem, inconclusive = fmt.Sprintf("the broker panicked (%s step): %v", st.Op, r), false
		}
	}()
	var s *Sess
	if st.C >= 0 && st.C < len(w.S) {
		s = w.S[st.C]
	}
	settle := func() bool {
		if err := w.Cl.Settle(); err != nil {
			problem, inconclusive = err.Error(), true
			return false
		}
		return true
	}
	// a client with half a packet on the wire finishes it before it says anything else
	flushTail := func(x *Sess) (string, bool) {
		if x == nil || x.tail == nil {
			return "", true
		}
		tail, h, id := x.tail, x.tailStep, x.tailID
		x.tail = nil
		if !x.Alive || x.Node.Down || x.Displaced {
			return "", true
		}
		w.touch(x)
		w.modelPublish(w.mp(x), h.Topic, h.Payload+strings.Repeat("x", h.Pad), h.Retain, x.Node)
		x.K.Send(tail)
		x.K.EndPartial()
		if !settle() {
			return problem, false
		}
		if h.PQoS == 1 && !x.K.Has(PUBACK, id) {
			return fmt.Sprintf("client %d: no PUBACK for %q, a PUBLISH of %d bytes that arrived in two pieces (connection closed by broker: %v)", h.C, h.Topic, len(tail)+h.Split, x.K.Conn.State().BrokerClosed), true
		}
		return "", true
	}
	switch st.Op {
	case "idle", "wait", "churn", "failnode", "failrestart", "restartnode", "gossip1", "gossipall", "sweep", "rpcunsub", "rpcclear", "pubpart":
	case "connect", "connectclose":
		// a session that is about to be taken over completes its half-written packet first (what
		// a displaced session still gets through is not modelled)
		if s != nil && !s.Connected {
			for _, o2 := range w.S {
				mp2 := st.MP
				if mp2 == "" {
					mp2 = "_default"
				}
				if o2 != s && o2.Alive && o2.ClientID == st.ClientID && w.mp(o2) == mp2 {
					if p, ok := flushTail(o2); p != "" || !ok {
						return p, inconclusive
					}
				}
			}
		}
	default:
		if p, ok := flushTail(s); p != "" || !ok {
			return p, inconclusive
		}
	}
	switch st.Op {
	case "pubpart":
		if s == nil || !s.Alive || s.Node.Down || s.Displaced || s.tail != nil || st.PQoS > 1 {
			return "", false
		}
		id := s.nextPID
		s.nextPID++
		pkt := EncPublish(st.Topic, []byte(st.Payload+strings.Repeat("x", st.Pad)), st.PQoS, st.Retain, false, id)
		k := st.Split
		if k < 1 {
			k = 1
		}
		if k >= len(pkt) {
			k = len(pkt) - 1
		}
		st.Split = k
		s.K.BeginPartial()
		s.K.Send(pkt[:k])
		s.tail, s.tailStep, s.tailID = pkt[k:], st, id
		if !settle() {
			return
		}
	case "pubrest":
		// flushed above
	case "churn":
		n := w.Cl.Nodes[st.Node%len(w.Cl.Nodes)]
		if n.Down {
			return "", false
		}
		var ks []*Client
		for i := int64(0); i < st.IdleMs; i++ {
			w.churned++
			k := w.Cl.NewClient(fmt.Sprintf("churn%d", w.churned))
			k.AttachTo(n)
			k.Send(EncConnect(ConnectOpts{ClientID: k.Name, KeepAlive: 600}))
			ks = append(ks, k)
		}
		if !settle() {
			return
		}
		for _, k := range ks {
			if !k.Accepted {
				return fmt.Sprintf("throw-away client %s: CONNECT not accepted (received %v)", k.Name, k.Rx), false
			}
			k.Send(EncDisconnect())
		}
		if !settle() {
			return
		}
	case "connect":
		if s.Connected {
			return "", false
		}
		n := w.Cl.Nodes[st.Node%len(w.Cl.Nodes)]
		if n.Down {
			return "", false
		}
		s.Node, s.MP, s.ClientID, s.KeepAlive, s.Will = n, st.MP, st.ClientID, st.KeepAlive, st.Will
		s.Connected = true
		w.connects++
		s.connectSeq = w.connects
		o := ConnectOpts{ClientID: st.ClientID, KeepAlive: st.KeepAlive, Username: st.MP}
		if st.Will != nil {
			o.WillTopic, o.WillPayload, o.WillQoS, o.WillRetain = st.Will.Topic, st.Will.Payload, st.Will.QoS, st.Will.Retain
		}
		// model: an existing live session with this client id (any mount point is a
		// separate matter, see C17) is displaced
		for _, o2 := range w.S {
			if o2 != s && o2.Alive && o2.ClientID == st.ClientID && w.mp(o2) == w.mp(s) {
				o2.Displaced = true
			}
		}
		s.K.AttachTo(n)
		s.K.Send(EncConnect(o))
		if !settle() {
			return
		}
		if !s.K.Accepted {
			return fmt.Sprintf("client %d: CONNECT not accepted (received %v)", st.C, s.K.Rx), false
		}
		s.Alive = true
		w.touch(s)
		s.SessionID = n.Local.SessionOf(s.K.Conn)
	case "connectclose":
		// the client sends its CONNECT and is gone before it reads the CONNACK (the CONNACK write
		// fails). The broker has accepted the session by then: its will is due, and no trace of
		// the session may stay behind.
		if s.Connected {
			return "", false
		}
		n := w.Cl.Nodes[st.Node%len(w.Cl.Nodes)]
		if n.Down {
			return "", false
		}
		s.Node, s.MP, s.ClientID, s.KeepAlive, s.Will = n, st.MP, st.ClientID, st.KeepAlive, st.Will
		s.Connected = true
		w.connects++
		s.connectSeq = w.connects
		o := ConnectOpts{ClientID: st.ClientID, KeepAlive: st.KeepAlive, Username: st.MP}
		if st.Will != nil {
			o.WillTopic, o.WillPayload, o.WillQoS, o.WillRetain = st.Will.Topic, st.Will.Payload, st.Will.QoS, st.Will.Retain
		}
		for _, o2 := range w.S {
			if o2 != s && o2.Alive && o2.ClientID == st.ClientID && w.mp(o2) == w.mp(s) {
				o2.Displaced = true
			}
		}
		s.K.AttachTo(n)
		s.K.Send(EncConnect(o))
		s.K.Close()
		s.Alive = true
		w.endSession(s, "close")
		s.Displaced = true // what the vanished client was sent is not judged
		if !settle() {
			return
		}
	case "sub":
		if s == nil || !s.Alive || s.Node.Down {
			return "", false
		}
		id := s.nextPID
		s.nextPID++
		w.touch(s)
		s.K.Send(EncSubscribe(id, st.Filters, qosBytes(st.QoS)))
		for _, f := range st.Filters {
			s.Subs[f] = 1
			for topic, payload := range w.Retained[w.mp(s)] {
				if ref.MatchS(f, topic) {
					s.Expect[pkey(topic, payload, true)]++
				}
			}
		}
		if !settle() {
			return
		}
		if !s.Displaced && !s.K.Has(SUBACK, id) {
			return fmt.Sprintf("client %d: no SUBACK for %v", st.C, st.Filters), false
		}
	case "subclose", "pubclose":
		// the client sends a SUBSCRIBE / a QoS 1 PUBLISH and drops the connection before reading
		// the answer: the broker's SUBACK / PUBACK write fails
		if s == nil || !s.Alive || s.Node.Down {
			return "", false
		}
		id := s.nextPID
		s.nextPID++
		if st.Op == "subclose" {
			s.K.Send(EncSubscribe(id, st.Filters, qosBytes(st.QoS)))
		} else {
			// the publish itself is accepted and delivered; only its acknowledgement is lost
			w.modelPublish(w.mp(s), st.Topic, st.Payload, st.Retain, s.Node)
			s.K.Send(EncPublish(st.Topic, []byte(st.Payload), 1, st.Retain, false, id))
		}
		s.K.Close()
		if st.Op == "pubclose" {
			// teardown may overtake the publish worker: the dying session can still be registered
			// when its own publish is routed, or not; its own deliveries are not judged
			s.Displaced = true
		}
		w.endSession(s, "close")
		if !settle() {
			return
		}
	case "unsub":
		if s == nil || !s.Alive || s.Node.Down {
			return "", false
		}
		id := s.nextPID
		s.nextPID++
		w.touch(s)
		s.K.Send(EncUnsubscribe(id, st.Filters))
		for _, f := range st.Filters {
			delete(s.Subs, f)
		}
		if !settle() {
			return
		}
		if !s.Displaced && !s.K.Has(UNSUBACK, id) {
			return fmt.Sprintf("client %d: no UNSUBACK for %v", st.C, st.Filters), false
		}
	case "pub":
		if s == nil || !s.Alive || s.Node.Down {
			return "", false
		}
		id := s.nextPID
		s.nextPID++
		w.touch(s)
		w.modelPublish(w.mp(s), st.Topic, st.Payload, st.Retain, s.Node)
		s.K.Send(EncPublish(st.Topic, []byte(st.Payload), st.PQoS, st.Retain, st.Dup && st.PQoS > 0, id))
		if !settle() {
			return
		}
		if s.Displaced {
			return "", false
		}
		if st.PQoS == 1 && !s.K.Has(PUBACK, id) {
			return fmt.Sprintf("client %d: no PUBACK for %q", st.C, st.Topic), false
		}
		if st.PQoS == 2 && !s.K.Has(PUBCOMP, id) {
			return fmt.Sprintf("client %d: no PUBCOMP for %q", st.C, st.Topic), false
		}
	case "stallpub":
		// client Victim stays connected but has stopped reading (its buffers are full: writes to
		// it block); client C publishes; time passes until the victim's allowance is over. The
		// write to the victim times out and the victim's session ends for silence — every other
		// matching subscriber still gets the message.
		if s == nil || !s.Alive || s.Node.Down || st.Victim < 0 || st.Victim >= len(w.S) {
			return "", false
		}
		v := w.S[st.Victim]
		if v == s || !v.Alive || v.Node.Down || v.Displaced || s.Displaced || v.Node != s.Node || w.mp(v) != w.mp(s) {
			return "", false
		}
		v.K.Conn.StallWrites(true)
		id := s.nextPID
		s.nextPID++
		w.touch(s)
		w.modelPublish(w.mp(s), st.Topic, st.Payload, false, s.Node)
		s.K.Send(EncPublish(st.Topic, []byte(st.Payload), 0, false, false, id))
		// let the publish reach the writer: either the write to the victim blocks, or (the victim
		// has no matching filter) everything settles by itself
		matches := false
		for f := range v.Subs {
			if ref.MatchS(f, st.Topic) {
				matches = true
			}
		}
		if matches {
			for until := time.Now().Add(5 * time.Second); time.Now().Before(until) && !v.K.Conn.WriteBlocked(); {
				time.Sleep(100 * time.Microsecond)
			}
			if !v.K.Conn.WriteBlocked() {
				v.K.Conn.StallWrites(false)
				return "stallpub: the write to the stalled client never started", true
			}
		} else if !settle() {
			return
		}
		d := 2*time.Duration(v.KeepAlive)*time.Second + 2*time.Second
		w.Cl.Clock.Advance(d)
		// what the victim was or was not sent is not judged; it is gone now
		v.Displaced = true
		var expired []*Sess
		for _, x := range w.S {
			if x.Alive && !x.Node.Down && w.Cl.Clock.Now() >= x.Deadline {
				expired = append(expired, x)
			}
		}
		for _, x := range expired {
			w.endSession(x, "timeout")
		}
		if !settle() {
			return
		}
		v.K.Conn.StallWrites(false)
	case "noack":
		if s == nil || !s.Alive || s.Node.Down {
			return "", false
		}
		s.NoAck = true
		s.K.NoDeliveryAck = true
	case "pub2hold":
		if s == nil || !s.Alive || s.Node.Down || s.Displaced || st.PID == 0 {
			return "", false
		}
		if _, busy := s.held[st.PID]; busy {
			return "", false // the client does not reuse an identifier it still holds
		}
		if s.K.HoldRel == nil {
			s.K.HoldRel = map[uint16]bool{}
		}
		if s.held == nil {
			s.held = map[uint16]Step{}
		}
		s.K.HoldRel[st.PID] = true
		before := 0
		for _, p := range s.K.Rx {
			if p.Type == PUBREC && p.ID == st.PID {
				before++
			}
		}
		w.touch(s)
		s.K.Send(EncPublish(st.Topic, []byte(st.Payload), 2, st.Retain, false, st.PID))
		if !settle() {
			return
		}
		after := 0
		for _, p := range s.K.Rx {
			if p.Type == PUBREC && p.ID == st.PID {
				after++
			}
		}
		if after != before+1 {
			return fmt.Sprintf("client %d: QoS 2 PUBLISH with identifier %d got %d PUBREC, want 1 (connection closed by broker: %v)", st.C, st.PID, after-before, s.K.Conn.State().BrokerClosed), false
		}
		s.held[st.PID] = st
	case "pub2rel":
		if s == nil || !s.Alive || s.Node.Down || s.Displaced {
			return "", false
		}
		h, ok := s.held[st.PID]
		if !ok {
			return "", false
		}
		delete(s.held, st.PID)
		delete(s.K.HoldRel, st.PID)
		before := 0
		for _, p := range s.K.Rx {
			if p.Type == PUBCOMP && p.ID == st.PID {
				before++
			}
		}
		w.touch(s)
		w.modelPublish(w.mp(s), h.Topic, h.Payload, h.Retain, s.Node)
		s.K.Send(EncAck(PUBREL, st.PID))
		if !settle() {
			return
		}
		after := 0
		for _, p := range s.K.Rx {
			if p.Type == PUBCOMP && p.ID == st.PID {
				after++
			}
		}
		if after != before+1 {
			return fmt.Sprintf("client %d: PUBREL for its held exchange %d got %d PUBCOMP, want 1", st.C, st.PID, after-before), false
		}
	case "ping":
		if s == nil || !s.Alive || s.Node.Down {
			return "", false
		}
		before := s.K.Count(PINGRESP)
		w.touch(s)
		s.K.Send(EncPingReq())
		if !settle() {
			return
		}
		if s.Displaced {
			// the displaced session learns about it here
			w.endSession(s, "displaced")
			if s.K.Count(PINGRESP) != before {
				return fmt.Sprintf("client %d: displaced session still got a PINGRESP", st.C), false
			}
			return "", false
		}
		if s.K.Count(PINGRESP) != before+1 {
			return fmt.Sprintf("client %d: PINGREQ within the keep-alive got no PINGRESP (connection closed by broker: %v)", st.C, s.K.Conn.State().BrokerClosed), false
		}
	case "disconnect":
		if s == nil || !s.Alive || s.Node.Down {
			return "", false
		}
		s.K.Send(EncDisconnect())
		w.endSession(s, "disconnect")
		if !settle() {
			return
		}
	case "close":
		if s == nil || !s.Connected || s.Node.Down {
			return "", false
		}
		s.K.Close()
		w.endSession(s, "close")
		if !settle() {
			return
		}
	case "raw":
		if s == nil || !s.Alive || s.Node.Down {
			return "", false
		}
		s.K.Send(st.Bytes)
		w.endSession(s, "protocol")
		if !settle() {
			return
		}
	case "idle":
		d := time.Duration(st.IdleMs) * time.Millisecond
		// model: sessions silent for more than their allowance end (none of them sees the
		// others' wills: they are gone from the registry before a will gets through the log).
		// The step is nudged so that no session's allowance boundary lies within 500 ms of the
		// instant it reaches (the broker computes deadlines from its own time.Now()).
		for again := true; again; {
			again = false
			target := w.Cl.Clock.Now() + d
			for _, x := range w.S {
				if x.Alive && !x.Node.Down {
					if target > x.Deadline-500*time.Millisecond && target < x.DeadlineMax+500*time.Millisecond {
						d += x.DeadlineMax + 500*time.Millisecond - target
						again = true
					}
				}
			}
		}
		w.Cl.Clock.Advance(d)
		var expired []*Sess
		for _, x := range w.S {
			if x.Alive && !x.Node.Down && w.Cl.Clock.Now() >= x.Deadline {
				expired = append(expired, x)
				x.Alive = false
			}
		}
		for _, x := range expired {
			// a displaced session and the session that displaced it running out of time in the
			// same instant: whether the displaced one still resolves to the newer one (no will) or
			// to nothing (will) depends on which teardown the broker happens to run first. Both
			// are legitimate; deliveries are not judged from here on.
			for _, o := range expired {
				if o != x && o.connectSeq > x.connectSeq && o.ClientID == x.ClientID && w.mp(o) == w.mp(x) && x.Will != nil {
					w.Ambiguous = true
				}
			}
			x.Alive = true
			w.endSession(x, "timeout")
		}
		if !settle() {
			return
		}
	case "failnode":
		n := w.Cl.Nodes[st.Node%len(w.Cl.Nodes)]
		if n.Down {
			return "", false
		}
		live := 0
		for _, x := range w.Cl.Nodes {
			if !x.Down {
				live++
			}
		}
		if live <= 1 {
			return "", false
		}
		w.Cl.FailNode(n)
		w.everFailed = true
		// the dying sessions are no longer there when their wills are published
		var dying []*Sess
		for _, x := range w.S {
			if x.Alive && x.Node == n {
				dying = append(dying, x)
				x.Alive = false
			}
		}
		for _, x := range dying {
			x.Alive = true
			w.endSession(x, "nodefail")
		}
		// survivors drop the failed peer's session records 3 s (real time) after the
		// notification: wait for that, generously; if it never happens CheckState says so
		waitUntil := time.Now().Add(15 * time.Second)
		for time.Now().Before(waitUntil) {
			left := 0
			for _, x := range w.Cl.Nodes {
				if !x.Down {
					left += len(x.State.SessionMetadatas().ByPeer(n.ID))
				}
			}
			if left == 0 && time.Since(waitUntil.Add(-15*time.Second)) > 3100*time.Millisecond {
				break
			}
			time.Sleep(20 * time.Millisecond)
		}
		if !settle() {
			return
		}
	case "failrestart":
		// the node's process dies and a new one comes up under the same node id at once, well
		// inside the 3 s after which the survivors purge the failed peer's records. No waiting
		// here: the script decides what happens inside that window ("wait" steps).
		i := st.Node % len(w.Cl.Nodes)
		n := w.Cl.Nodes[i]
		live := 0
		for _, x := range w.Cl.Nodes {
			if !x.Down {
				live++
			}
		}
		if n.Down || live <= 1 {
			return "", false
		}
		w.Cl.FailNode(n)
		w.everFailed = true
		var dying []*Sess
		for _, x := range w.S {
			if x.Alive && x.Node == n {
				dying = append(dying, x)
				x.Alive = false
			}
		}
		for _, x := range dying {
			x.Alive = true
			w.endSession(x, "nodefail")
		}
		if _, err := w.Cl.RestartNode(i); err != nil {
			return err.Error(), true
		}
		if !settle() {
			return
		}
	case "wait":
		// real time passes (the purge of a failed peer's records runs on a 3 s real-time timer)
		time.Sleep(time.Duration(st.IdleMs) * time.Millisecond)
		if !settle() {
			return
		}
	case "restartnode":
		i := st.Node % len(w.Cl.Nodes)
		if !w.Cl.Nodes[i].Down {
			return "", false
		}
		if _, err := w.Cl.RestartNode(i); err != nil {
			return err.Error(), true
		}
		if !settle() {
			return
		}
	case "gossip1":
		// manual gossip mode: deliver one collected broadcast (index st.C modulo pending) to node st.Node
		w.Cl.CollectGossip()
		if g := w.Cl.Gossip(); len(g) > 0 {
			idx := st.C % len(g)
			if idx < 0 {
				idx = -idx
			}
			w.Cl.DeliverGossip(idx, w.Cl.Nodes[st.Node%len(w.Cl.Nodes)])
		}
		if !settle() {
			return
		}
	case "gossipall":
		for r := 0; r < 5; r++ {
			if !settle() {
				return
			}
			if w.Cl.DeliverAllGossip() == 0 {
				break
			}
		}
		w.Cl.AntiEntropy()
		if !settle() {
			return
		}
	case "recycle":
		n := w.Cl.Nodes[st.Node%len(w.Cl.Nodes)]
		if n.Down || st.C <= 0 || st.IdleMs <= 0 {
			return "", false
		}
		var dying, fresh []*Client
		for i := 0; i < st.C; i++ {
			w.churned++
			k := w.Cl.NewClient(fmt.Sprintf("dying%d", w.churned))
			k.NoDeliveryAck = true
			k.AttachTo(n)
			k.Send(EncConnect(ConnectOpts{ClientID: k.Name, KeepAlive: 600, Username: st.MP}))
			k.Send(EncSubscribe(1, []string{"#"}, []byte{byte(1 + i%2)}))
			dying = append(dying, k)
		}
		if !settle() {
			return
		}
		mp := st.MP
		if mp == "" {
			mp = "_default"
		}
		w.modelPublish(mp, st.Topic, st.Payload, false, n)
		dying[0].Send(EncPublish(st.Topic, []byte(st.Payload), 0, false, false, 0))
		if !settle() {
			return
		}
		for _, k := range dying {
			live := 0
			for _, pk := range k.Publishes() {
				switch {
				case !pk.Retain && pk.Topic == st.Topic && pk.Payload == st.Payload:
					live++
				case pk.Retain && w.Retained[mp][pk.Topic] == pk.Payload && pk.Payload != "":
					// the tenant's retained messages, replayed to the new subscription
				default:
					return fmt.Sprintf("throw-away subscriber %s of mount point %s (filter #) received %v, which is neither the message just published (%s=%s) nor a retained message of its tenant", k.Name, mp, pk, st.Topic, st.Payload), false
				}
			}
			if live != 1 {
				return fmt.Sprintf("throw-away subscriber %s of mount point %s (filter #) received %d copies of %s=%s, want 1 (all: %v)", k.Name, mp, live, st.Topic, st.Payload, k.Publishes()), false
			}
			k.Close()
		}
		if !settle() {
			return
		}
		for i := int64(0); i < st.IdleMs; i++ {
			w.churned++
			k := w.Cl.NewClient(fmt.Sprintf("fresh%d", w.churned))
			k.AttachTo(n)
			k.Send(EncConnect(ConnectOpts{ClientID: k.Name, KeepAlive: 600, Username: st.ClientID}))
			fresh = append(fresh, k)
		}
		if !settle() {
			return
		}
		if p, inc := w.Apply(Step{Op: "sweep"}); p != "" || inc {
			return p, inc
		}
		for _, k := range fresh {
			for _, pk := range k.Rx {
				if pk.Type != CONNACK {
					return fmt.Sprintf("client %s of mount point %q, which never subscribed, was sent %v (a message for sessions of mount point %q that had gone before it connected)", k.Name, st.ClientID, pk, mp), false
				}
			}
			k.Send(EncDisconnect())
		}
		if !settle() {
			return
		}
	case "rpcunsub":
		// the operator's view: the subscription is gone for everybody from now on; the session
		// stays connected and may subscribe again (which must make the filter active again)
		if s == nil || !s.Alive || s.Node.Down || s.Displaced || s.SessionID == "" || len(st.Filters) == 0 {
			return "", false
		}
		if _, ok := s.Subs[st.Filters[0]]; !ok {
			return "", false
		}
		n := w.Cl.Nodes[st.Node%len(w.Cl.Nodes)]
		if n.Down {
			return "", false
		}
		if err := n.AdminDeleteSubscription(s.SessionID, []byte(w.mp(s)+"/"+st.Filters[0])); err != nil {
			return "DeleteSubscription RPC failed: " + err.Error(), false
		}
		delete(s.Subs, st.Filters[0])
		if !settle() {
			return
		}
	case "rpcclear":
		n := w.Cl.Nodes[st.Node%len(w.Cl.Nodes)]
		if n.Down || st.Topic == "" {
			return "", false
		}
		mp := st.MP
		if mp == "" {
			mp = "_default"
		}
		if err := n.AdminDeleteRetained([]byte(mp + "/" + st.Topic)); err != nil {
			return "DeleteRetainedMessage RPC failed: " + err.Error(), false
		}
		delete(w.Retained[mp], st.Topic)
		if !settle() {
			return
		}
	case "sweep":
		// half-written packets are completed first: their senders hold their acknowledgements back
		for _, x := range w.S {
			if p, ok := flushTail(x); p != "" || !ok {
				return p, inconclusive
			}
		}
		for _, n := range w.Cl.Nodes {
			if !n.Down {
				n.Acks.SweepAll()
			}
		}
		for _, x := range w.S {
			if x.NoAck && x.Alive {
				// open deliveries are sent again: the broker re-arms the allowance when it writes
				if m := w.Cl.Clock.Now() + 2*time.Duration(x.KeepAlive)*time.Second; m > x.DeadlineMax {
					x.DeadlineMax = m
				}
			}
			// the broker gives up on exchanges whose PUBREL did not come in time
			x.held = nil
			if x.K.HoldRel != nil {
				x.K.HoldRel = map[uint16]bool{}
			}
		}
		if !settle() {
			return
		}
	default:
		return "bad step " + st.Op, false
	}
	return "", false
}

// CheckDeliveries compares, for every client, the multiset of PUBLISH packets it has read
// with the model (both directions). Clients on failed nodes and displaced sessions are
// not judged.
func (w *World) CheckDeliveries() string {
	if w.Ambiguous {
		return ""
	}
	for i, s := range w.S {
		if !s.Connected || s.Displaced || (s.Node != nil && s.Node.Down) {
			continue
		}
		if s.K.ParseErr != nil {
			return s.K.ParseErr.Error()
		}
		got := map[string]int{}
		for _, p := range s.K.Publishes() {
			got[pkey(p.Topic, p.Payload, p.Retain)]++
		}
		keys := map[string]bool{}
		for k := range got {
			keys[k] = true
		}
		for k := range s.Expect {
			keys[k] = true
		}
		var ks []string
		for k := range keys {
			ks = append(ks, k)
		}
		sort.Strings(ks)
		for _, k := range ks {
			if s.NoAck && s.Expect[k] > 0 && got[k] >= s.Expect[k] {
				continue
			}
			if got[k] != s.Expect[k] {
				return fmt.Sprintf("client %d (mount point %s, node %s, filters %v): received %d x %s, expected %d", i, w.mp(s), s.Node.Name, sortedFilters(s.Subs), got[k], showKey(k), s.Expect[k])
			}
		}
	}
	return ""
}

func qosBytes(q []int) []byte {
	out := make([]byte, len(q))
	for i, v := range q {
		out[i] = byte(v)
	}
	return out
}

func sortedFilters(m map[string]byte) []string {
	var out []string
	for f := range m {
		out = append(out, f)
	}
	sort.Strings(out)
	return out
}

// CheckState: at quiescence with all gossip delivered — live sessions are listed and
// open everywhere; ended sessions left no trace and their connection was closed by the
// broker; every listed subscription belongs to a listed session on the node it names.
func (w *World) CheckState() string {
	for _, n := range w.Cl.Nodes {
		if n.Down {
			continue
		}
		listed := map[string]uint64{}
		for _, m := range n.State.SessionMetadatas().All() {
			listed[m.SessionID] = m.Peer
		}
		lingering := map[string]bool{}
		for _, s := range w.S {
			if s.Displaced && s.Alive && s.SessionID != "" {
				// taken over but not yet at its next keep-alive exchange: C12 allows it to linger,
				// its record is gone already while its subscriptions go when it is torn down
				lingering[s.SessionID] = true
			}
		}
		// no ghosts: every listed session belongs to a client of the script that is still there
		// (or to a displaced one that has not been told yet)
		if !w.everFailed {
			owned := map[string]bool{}
			for _, s := range w.S {
				if s.SessionID != "" && (s.Alive || lingering[s.SessionID]) {
					owned[s.SessionID] = true
				}
			}
			var ghosts []string
			for id := range listed {
				if !owned[id] {
					ghosts = append(ghosts, id)
				}
			}
			sort.Strings(ghosts)
			if len(ghosts) > 0 {
				return fmt.Sprintf("node %s lists session(s) %v that belong to no client that is still connected", n.Name, ghosts)
			}
		}
		subsOf := map[string][]string{}
		for _, sub := range n.State.Subscriptions().All() {
			subsOf[sub.SessionID] = append(subsOf[sub.SessionID], string(sub.Pattern))
			if lingering[sub.SessionID] {
				continue
			}
			peer, ok := listed[sub.SessionID]
			if !ok {
				return fmt.Sprintf("node %s lists subscription %q of session %s, which is not a listed session", n.Name, sub.Pattern, sub.SessionID)
			}
			if peer != sub.Peer {
				return fmt.Sprintf("node %s lists subscription %q of session %s on peer %d, but that session is on peer %d", n.Name, sub.Pattern, sub.SessionID, sub.Peer, peer)
			}
			if pn := w.Cl.NodeByID(sub.Peer); pn == nil || pn.Down {
				return fmt.Sprintf("node %s lists subscription %q of session %s hosted by failed peer %d", n.Name, sub.Pattern, sub.SessionID, sub.Peer)
			}
		}
		for i, s := range w.S {
			if !s.Connected || s.SessionID == "" || (s.Displaced && s.Alive) {
				continue // a displaced session may linger until its next keep-alive exchange
			}
			_, isListed := listed[s.SessionID]
			switch {
			case s.Alive && !s.Node.Down && !isListed:
				return fmt.Sprintf("node %s does not list live session %s (client %d)", n.Name, s.SessionID, i)
			case !s.Alive && isListed:
				return fmt.Sprintf("node %s still lists session %s (client %d) which ended (%s)", n.Name, s.SessionID, i, s.EndCause)
			case !s.Alive && len(subsOf[s.SessionID]) > 0:
				return fmt.Sprintf("node %s still lists subscriptions %q of ended session %s (client %d, %s)", n.Name, subsOf[s.SessionID], s.SessionID, i, s.EndCause)
			}
			if s.Alive && !s.Node.Down {
				var want []string
				for f := range s.Subs {
					want = append(want, w.mp(s)+"/"+f)
				}
				sort.Strings(want)
				got := append([]string{}, subsOf[s.SessionID]...)
				sort.Strings(got)
				if strings.Join(got, "\x00") != strings.Join(want, "\x00") {
					return fmt.Sprintf("node %s lists subscriptions %q for live session %s (client %d), expected %q", n.Name, got, s.SessionID, i, want)
				}
			}
		}
	}
	if w.Cl.AutoGossip && !w.everFailed {
		// every broadcast has been delivered: the nodes hold the same records, field by field
		if d := w.Cl.SnapshotDiff(); d != "" {
			return "replicated records differ although every broadcast was delivered: " + d
		}
	}
	for i, s := range w.S {
		if !s.Connected || s.SessionID == "" || s.Node.Down {
			continue
		}
		st := s.K.Conn.State()
		inReg := s.Node.Local.Get(s.SessionID) != nil
		switch {
		case s.Alive && !s.Displaced && st.BrokerClosed:
			return fmt.Sprintf("client %d: the broker closed the connection of a session that gave no cause", i)
		case s.Alive && !s.Displaced && !inReg:
			return fmt.Sprintf("client %d: live session %s is missing from its node's registry", i, s.SessionID)
		case !s.Alive && inReg:
			return fmt.Sprintf("client %d: ended session %s (%s) is still in the node's registry", i, s.SessionID, s.EndCause)
		case !s.Alive && !st.BrokerClosed:
			return fmt.Sprintf("client %d: session %s ended (%s) but the broker did not close its connection", i, s.SessionID, s.EndCause)
		}
	}
	return ""
}
