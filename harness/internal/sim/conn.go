package sim

import (
	"bytes"
	"errors"
	"io"
	"sync"
	"sync/atomic"
	"time"
)

// Clock is the virtual clock connection deadlines live on. Only Advance moves it.
type Clock struct {
	mu    sync.Mutex
	now   time.Duration
	conns []*Conn
}

func (c *Clock) Now() time.Duration {
	c.mu.Lock()
	defer c.mu.Unlock()
	return c.now
}

// Advance moves virtual time forward and wakes every reader whose deadline has passed.
func (c *Clock) Advance(d time.Duration) {
	c.mu.Lock()
	c.now += d
	conns := append([]*Conn{}, c.conns...)
	c.mu.Unlock()
	for _, k := range conns {
		k.mu.Lock()
		k.cond.Broadcast()
		k.mu.Unlock()
	}
}

func (c *Clock) register(k *Conn) {
	c.mu.Lock()
	c.conns = append(c.conns, k)
	c.mu.Unlock()
}

type timeoutErr struct{}

func (timeoutErr) Error() string   { return "i/o timeout (virtual deadline)" }
func (timeoutErr) Timeout() bool   { return true }
func (timeoutErr) Temporary() bool { return true }

var errClosed = errors.New("use of closed connection")

// Conn is an in-memory connection. The broker side is a transport.TimeoutReadWriteCloser
// whose read deadline is kept on the virtual clock: SetReadDeadline(t) means "t - time.Now()
// from the current virtual instant". The client side is driven by the harness.
type Conn struct {
	Name string

	mu           sync.Mutex
	cond         *sync.Cond
	clk          *Clock
	act          *int64
	toBroker     []byte
	fromBroker   []byte
	clientClosed bool
	brokerClosed bool
	hasDeadline  bool
	deadline     time.Duration // virtual
	parked       bool
	readCalls    int64
	// FailWrites makes broker-side writes fail (a peer that vanished without closing).
	failWrites       bool
	failNext         int
	writesAfterClose int64
	// first frame bookkeeping: once the broker has consumed a complete first frame (the
	// CONNECT) it owes the connection an answer or a close; until then the connection is not
	// quiet even if a reader is already parked (the session's serve loop starts reading before
	// the setup worker has written the CONNACK)
	onWrite          func()
	onWritten        func([]byte) bool
	stallWrites      bool
	writeBlocked     bool
	hasWriteDeadline bool
	writeDeadline    time.Duration // virtual
	head             []byte        // first bytes consumed (at most 5)
	consumed         int64
	frameLen         int64 // total length of the first frame; 0 = not known yet, -1 = malformed length
	wroteOnce        bool
	// framing of the broker→client stream, across Write calls: a Write that ends in the middle
	// of a packet ("partial write") is harmless by itself but lets the writes of the broker's
	// other goroutines land inside that packet. onPartial (persistent) runs after such a Write,
	// outside the lock; the Write then returns only once another Write has arrived on the
	// connection or 400 ms of real time have passed — the natural schedule in which another
	// goroutine gets the connection between two pieces, forced. Never runs while every packet is
	// handed over in one Write.
	ohead         []byte
	oleft         int64
	writeSeq      int64
	onPartial     func()
	PartialWrites int64
}

func NewConn(name string, clk *Clock, activity *int64) *Conn {
	c := &Conn{Name: name, clk: clk, act: activity}
	c.cond = sync.NewCond(&c.mu)
	clk.register(c)
	return c
}

func (c *Conn) bump() { atomic.AddInt64(c.act, 1) }

// ---- broker side ----------------------------------------------------------------------

func (c *Conn) Read(p []byte) (int, error) {
	c.mu.Lock()
	defer c.mu.Unlock()
	c.readCalls++
	for {
		if c.brokerClosed {
			return 0, errClosed
		}
		if len(c.toBroker) > 0 {
			n := copy(p, c.toBroker)
			c.noteConsumed(c.toBroker[:n])
			c.toBroker = c.toBroker[n:]
			c.bump()
			return n, nil
		}
		if c.clientClosed {
			return 0, io.EOF
		}
		if c.hasDeadline && c.clk.Now() >= c.deadline {
			return 0, timeoutErr{}
		}
		c.parked = true
		c.cond.Wait()
		c.parked = false
	}
}

// StallWrites makes the broker's writes to this connection block (a client that stays
// connected but stops reading, with full transport buffers) until it is switched off again.
func (c *Conn) StallWrites(on bool) {
	c.mu.Lock()
	c.stallWrites = on
	c.cond.Broadcast()
	c.mu.Unlock()
}

// WriteBlocked reports whether a broker write is currently blocked on this stalled connection.
func (c *Conn) WriteBlocked() bool {
	c.mu.Lock()
	defer c.mu.Unlock()
	return c.writeBlocked
}

// FailNextWrites makes the next k writes of the broker to this connection fail (nothing arrives);
// the connection itself stays open and later writes succeed.
func (c *Conn) FailNextWrites(k int) {
	c.mu.Lock()
	c.failNext = k
	c.mu.Unlock()
}

// OnNextWrite arms a one-shot hook that runs at the start of the broker's next write to this
// connection, outside the connection's lock (so that it may close the client side and wait
// for the broker to notice): a connection that dies exactly while something is written to it.
func (c *Conn) OnNextWrite(f func()) {
	c.mu.Lock()
	c.onWrite = f
	c.mu.Unlock()
}

// OnWritten installs a hook that is offered every chunk the broker has written to this
// connection, right after the client side received it and before the broker's Write returns,
// outside the connection's lock; it is removed once it returns true. With it a script can act at
// the very moment a client holds an answer (the SUBACK, say) - the earliest moment any other
// client could react to it.
func (c *Conn) OnWritten(f func(p []byte) bool) {
	c.mu.Lock()
	c.onWritten = f
	c.mu.Unlock()
}

func (c *Conn) Write(p []byte) (int, error) {
	c.mu.Lock()
	if f := c.onWrite; f != nil {
		c.onWrite = nil
		c.mu.Unlock()
		f()
		c.mu.Lock()
	}
	defer c.mu.Unlock()
	for c.stallWrites && !c.brokerClosed && !c.clientClosed {
		if c.hasWriteDeadline && c.clk.Now() >= c.writeDeadline {
			return 0, timeoutErr{} // the write deadline passed while the peer was not reading
		}
		c.writeBlocked = true
		c.cond.Wait() // the peer does not read and every buffer on the way is full
		c.writeBlocked = false
	}
	if c.hasWriteDeadline && c.clk.Now() >= c.writeDeadline && !c.brokerClosed {
		// as on a socket: a write attempted after the write deadline fails at once
		c.wroteOnce = true
		return 0, timeoutErr{}
	}
	if c.brokerClosed {
		c.writesAfterClose++
		return 0, errClosed
	}
	c.wroteOnce = true
	if c.clientClosed || c.failWrites {
		return 0, io.ErrClosedPipe
	}
	if c.failNext > 0 {
		// a transient fault: this write fails, nothing of it arrives, the connection stays usable
		c.failNext--
		c.bump()
		return 0, errors.New("injected transient write error")
	}
	c.fromBroker = append(c.fromBroker, p...)
	c.bump()
	c.writeSeq++
	c.cond.Broadcast()
	if f := c.onWritten; f != nil {
		c.mu.Unlock()
		done := f(p)
		c.mu.Lock()
		if done {
			c.onWritten = nil
		}
	}
	if c.noteWritten(p) && c.onPartial != nil {
		f, seq := c.onPartial, c.writeSeq
		c.PartialWrites++
		c.mu.Unlock()
		f()
		c.mu.Lock()
		stop := time.AfterFunc(400*time.Millisecond, func() {
			c.mu.Lock()
			c.cond.Broadcast()
			c.mu.Unlock()
		})
		for until := time.Now().Add(400 * time.Millisecond); c.writeSeq == seq && !c.brokerClosed && !c.clientClosed && time.Now().Before(until); {
			c.cond.Wait()
		}
		stop.Stop()
	}
	return len(p), nil
}

// OnPartialWrite installs the hook described at the onPartial field.
func (c *Conn) OnPartialWrite(f func()) {
	c.mu.Lock()
	c.onPartial = f
	c.mu.Unlock()
}

// noteWritten advances the framing of the broker→client stream and reports whether the stream
// now stands in the middle of a packet (c.mu held).
func (c *Conn) noteWritten(b []byte) bool {
	for len(b) > 0 {
		if c.oleft > 0 {
			n := int64(len(b))
			if n > c.oleft {
				n = c.oleft
			}
			c.oleft -= n
			b = b[n:]
			continue
		}
		c.ohead = append(c.ohead, b[0])
		b = b[1:]
		if len(c.ohead) >= 2 {
			last := c.ohead[len(c.ohead)-1]
			if last&0x80 == 0 || len(c.ohead) == 5 {
				rem, mult := int64(0), int64(1)
				for _, x := range c.ohead[1:] {
					rem += int64(x&0x7f) * mult
					mult *= 128
				}
				c.oleft = rem
				c.ohead = c.ohead[:0]
			}
		}
	}
	return c.oleft > 0 || len(c.ohead) > 0
}

// noteConsumed tracks the framing of the first packet (c.mu held).
func (c *Conn) noteConsumed(b []byte) {
	c.consumed += int64(len(b))
	if c.frameLen != 0 {
		return
	}
	for _, x := range b {
		if len(c.head) < 5 {
			c.head = append(c.head, x)
		}
	}
	// fixed header byte + remaining length (1-4 bytes, continuation bit 0x80)
	rem, mult := int64(0), int64(1)
	for i := 1; i < len(c.head); i++ {
		rem += int64(c.head[i]&0x7f) * mult
		mult *= 128
		if c.head[i]&0x80 == 0 {
			c.frameLen = int64(i+1) + rem
			return
		}
		if i == 4 {
			c.frameLen = -1
			return
		}
	}
}

// awaitingAnswer: a complete first frame was consumed and the broker has neither written
// anything nor closed the connection yet (c.mu held).
func (c *Conn) awaitingAnswer() bool {
	return c.frameLen > 0 && c.consumed >= c.frameLen && !c.wroteOnce && !c.brokerClosed && !c.clientClosed
}

func (c *Conn) Close() error {
	c.mu.Lock()
	defer c.mu.Unlock()
	if !c.brokerClosed {
		c.brokerClosed = true
		c.bump()
	}
	c.cond.Broadcast()
	return nil
}

func (c *Conn) setDeadline(t time.Time, read, write bool) {
	c.mu.Lock()
	defer c.mu.Unlock()
	if read {
		if t.IsZero() {
			c.hasDeadline = false
		} else {
			c.hasDeadline = true
			c.deadline = c.clk.Now() + time.Until(t)
		}
	}
	if write {
		if t.IsZero() {
			c.hasWriteDeadline = false
		} else {
			c.hasWriteDeadline = true
			c.writeDeadline = c.clk.Now() + time.Until(t)
		}
	}
	c.cond.Broadcast()
}

// Deadlines live on the virtual clock, for reads and for writes alike.
func (c *Conn) SetDeadline(t time.Time) error      { c.setDeadline(t, true, true); return nil }
func (c *Conn) SetReadDeadline(t time.Time) error  { c.setDeadline(t, true, false); return nil }
func (c *Conn) SetWriteDeadline(t time.Time) error { c.setDeadline(t, false, true); return nil }

// ---- client (harness) side ---------------------------------------------------------------

// ClientWrite hands bytes to the broker side.
func (c *Conn) ClientWrite(b []byte) {
	c.mu.Lock()
	c.toBroker = append(c.toBroker, b...)
	c.bump()
	c.cond.Broadcast()
	c.mu.Unlock()
}

// ClientClose closes the client's end (connection loss as the broker sees it: EOF).
func (c *Conn) ClientClose() {
	c.mu.Lock()
	c.clientClosed = true
	c.bump()
	c.cond.Broadcast()
	c.mu.Unlock()
}

// Take removes and returns what the broker has written so far.
func (c *Conn) Take() []byte {
	c.mu.Lock()
	defer c.mu.Unlock()
	b := c.fromBroker
	c.fromBroker = nil
	return b
}

type ConnState struct {
	Pending      int  // bytes the broker has not read yet
	Parked       bool // a broker goroutine is blocked in Read
	BrokerClosed bool
	ClientClosed bool
	Unread       int // bytes written by the broker, not yet taken by the client
	Deadline     time.Duration
	HasDeadline  bool
	// AwaitingAnswer: the broker consumed a complete first frame and has not answered or closed yet
	AwaitingAnswer bool
}

func (c *Conn) State() ConnState {
	c.mu.Lock()
	defer c.mu.Unlock()
	return ConnState{len(c.toBroker), c.parked, c.brokerClosed, c.clientClosed, len(c.fromBroker), c.deadline, c.hasDeadline, c.awaitingAnswer()}
}

// WhenWritten runs f once, on the broker's writing goroutine, at the moment the bytes pattern has
// been written to this connection (and received by the client side): before the broker's Write
// returns. f typically makes ANOTHER client act and waits for that client's answer.
func (c *Conn) WhenWritten(pattern []byte, f func()) {
	var mu sync.Mutex
	var seen []byte
	fired := false
	c.OnWritten(func(p []byte) bool {
		// other broker goroutines may write to the connection while f runs: f runs once
		mu.Lock()
		if fired {
			mu.Unlock()
			return true
		}
		seen = append(seen, p...)
		if !bytes.Contains(seen, pattern) {
			if len(seen) > 1<<20 {
				seen = seen[len(seen)-len(pattern):]
			}
			mu.Unlock()
			return false
		}
		fired = true
		mu.Unlock()
		f()
		return true
	})
}
