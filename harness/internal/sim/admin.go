package sim

import (
	"context"
	"time"

	"github.com/vx-labs/wasp/v4/wasp/api"
)

// Operator actions: the calls `waspctl` makes against a node's gRPC API (the same in-memory
// server the nodes use among themselves). They change the replicated state behind the back of
// the sessions concerned.

// AdminDeleteSubscription removes the subscription (sessionID, pattern) through the node's
// DeleteSubscription RPC. pattern is the stored form (mount point prefix included).
func (n *Node) AdminDeleteSubscription(sessionID string, pattern []byte) error {
	ctx, cancel := context.WithTimeout(context.Background(), 10*time.Second)
	defer cancel()
	_, err := api.NewMQTTClient(n.client).DeleteSubscription(ctx, &api.DeleteSubscriptionRequest{SessionID: sessionID, Pattern: pattern})
	return err
}

// AdminDeleteRetained clears the retained message of a (prefixed) topic through the node's
// DeleteRetainedMessage RPC.
func (n *Node) AdminDeleteRetained(topic []byte) error {
	ctx, cancel := context.WithTimeout(context.Background(), 10*time.Second)
	defer cancel()
	_, err := api.NewMQTTClient(n.client).DeleteRetainedMessage(ctx, &api.DeleteRetainedMessageRequest{Topic: topic})
	return err
}
