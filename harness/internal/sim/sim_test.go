package sim

import (
	"testing"
	"time"
)

func TestSmokeSingleNode(t *testing.T) {
	cl, err := NewCluster()
	if err != nil {
		t.Fatal(err)
	}
	defer cl.Close()
	n, err := cl.AddNode(NodeOpts{})
	if err != nil {
		t.Fatal(err)
	}
	sub := cl.NewClient("sub")
	sub.AttachTo(n)
	sub.Send(EncConnect(ConnectOpts{ClientID: "sub", KeepAlive: 60}))
	pub := cl.NewClient("pub")
	pub.AttachTo(n)
	pub.Send(EncConnect(ConnectOpts{ClientID: "pub", KeepAlive: 60}))
	if err := cl.Settle(); err != nil {
		t.Fatal(err)
	}
	if !sub.Accepted || !pub.Accepted {
		t.Fatalf("not accepted: %v %v", sub.Rx, pub.Rx)
	}
	sub.Send(EncSubscribe(1, []string{"a/#"}, []byte{1}))
	if err := cl.Settle(); err != nil {
		t.Fatal(err)
	}
	t0 := time.Now()
	for i := 0; i < 3; i++ {
		pub.Send(EncPublish("a/b", []byte{'x', byte('0' + i)}, 1, false, false, uint16(20000+i)))
		if err := cl.Settle(); err != nil {
			t.Fatal(err)
		}
	}
	t.Logf("3 publishes settled in %v; sub got %v; pub got %v", time.Since(t0), sub.Publishes(), pub.Rx)
	if len(sub.Publishes()) == 0 {
		t.Logf("no delivery (offset 0?)")
	}
	sub.Send(EncPingReq())
	cl.Idle(200 * time.Second)
	t.Logf("after idle: sub conn %+v rx=%v", sub.Conn.State(), sub.Rx[len(sub.Rx)-1])
}

func TestSmokeTwoNodes(t *testing.T) {
	cl, err := NewCluster()
	if err != nil {
		t.Fatal(err)
	}
	defer cl.Close()
	n1, _ := cl.AddNode(NodeOpts{})
	n2, _ := cl.AddNode(NodeOpts{})
	sub := cl.NewClient("sub")
	sub.AttachTo(n2)
	sub.Send(EncConnect(ConnectOpts{ClientID: "sub", KeepAlive: 60}))
	pub := cl.NewClient("pub")
	pub.AttachTo(n1)
	pub.Send(EncConnect(ConnectOpts{ClientID: "pub", KeepAlive: 60}))
	cl.Settle()
	sub.Send(EncSubscribe(1, []string{"#"}, []byte{0}))
	cl.Settle()
	for i := 0; i < 3; i++ {
		pub.Send(EncPublish("a/b", []byte{'y', byte('0' + i)}, 1, false, false, uint16(20000+i)))
		if err := cl.Settle(); err != nil {
			t.Fatal(err)
		}
	}
	t.Logf("sub got %v; pub got %v; calls %v; n2 appends %v", sub.Publishes(), pub.Rx, cl.Calls(), n2.Log.Appends())
}
