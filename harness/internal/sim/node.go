package sim

import (
	"context"
	"errors"
	"fmt"
	"github.com/vx-labs/cluster/membership"
	"net"
	"os"
	"sync"
	"sync/atomic"
	"time"

	"github.com/hashicorp/memberlist"
	"github.com/vx-labs/commitlog/stream"
	"github.com/vx-labs/mqtt-protocol/packet"
	"github.com/vx-labs/wasp/v4/wasp"
	"github.com/vx-labs/wasp/v4/wasp/ack"
	"github.com/vx-labs/wasp/v4/wasp/audit"
	"github.com/vx-labs/wasp/v4/wasp/auth"
	"github.com/vx-labs/wasp/v4/wasp/distributed"
	"github.com/vx-labs/wasp/v4/wasp/messages"
	"github.com/vx-labs/wasp/v4/wasp/sessions"
	"github.com/vx-labs/wasp/v4/wasp/transport"
	"go.uber.org/zap"
	"google.golang.org/grpc"
	"google.golang.org/grpc/codes"
	"google.golang.org/grpc/status"
	"google.golang.org/grpc/test/bufconn"
)

// ---- message log wrapper ----------------------------------------------------------------

// AppendRec is one Append seen by a node's log wrapper.
type AppendRec struct {
	Seq     int64
	Topic   string
	Payload string
	Err     bool
}

// LogWrap wraps the node's real messages.Log: it counts appends, records them, can fail
// the next k appends, and tracks the highest offset whose Consume callback has returned.
type LogWrap struct {
	real messages.Log
	act  *int64
	seq  *int64

	mu        sync.Mutex
	prefilled int64
	appended  int64 // successful appends through the wrapper
	appends   []AppendRec
	failNext  int
	consumed  int64 // highest offset returned by the callback (-1 none)
	consuming bool
	handed    []uint64 // every offset handed to the callback, in order
	getErr    string
	recent    map[uint64]string // payload the callback was handed, for recent offsets
	Mismatch  string            // first Get(o) that disagreed with what Consume handed for o
	delayNext int
	delay     time.Duration
	hangNext  int
	hang      time.Duration
	panicNext int
	onPanic   func()
}

func (l *LogWrap) Close() error { return l.real.Close() }

func (l *LogWrap) Append(p *packet.Publish) error {
	l.mu.Lock()
	if l.failNext > 0 {
		l.failNext--
		l.appends = append(l.appends, AppendRec{atomic.AddInt64(l.seq, 1), string(p.Topic), string(p.Payload), true})
		l.mu.Unlock()
		atomic.AddInt64(l.act, 1)
		return errors.New("injected log append failure")
	}
	if l.panicNext > 0 {
		// the failure mode of this write is a panic, not an error (a log that is being closed,
		// a message it cannot encode): on the unchanged broker that ends the process
		l.panicNext--
		l.appends = append(l.appends, AppendRec{atomic.AddInt64(l.seq, 1), string(p.Topic), string(p.Payload), true})
		f := l.onPanic
		l.mu.Unlock()
		atomic.AddInt64(l.act, 1)
		if f != nil {
			f()
		}
		panic("injected panic in the message log's Append")
	}
	delay := time.Duration(0)
	if l.delayNext > 0 {
		l.delayNext--
		delay = l.delay
	}
	hang := time.Duration(0)
	if l.hangNext > 0 {
		l.hangNext--
		hang = l.hang
	}
	l.mu.Unlock()
	if hang > 0 {
		// a peer that hangs and then gives up (disk error after a long stall, process killed
		// while the call was pending): the append fails, late
		time.Sleep(hang)
		l.mu.Lock()
		l.appends = append(l.appends, AppendRec{atomic.AddInt64(l.seq, 1), string(p.Topic), string(p.Payload), true})
		l.mu.Unlock()
		atomic.AddInt64(l.act, 1)
		return errors.New("injected log append failure after a stall")
	}
	if delay > 0 {
		time.Sleep(delay) // a slow disk / a busy peer: the append succeeds, late
	}
	err := l.real.Append(p)
	l.mu.Lock()
	l.appends = append(l.appends, AppendRec{atomic.AddInt64(l.seq, 1), string(p.Topic), string(p.Payload), err != nil})
	if err == nil {
		l.appended++
	}
	l.mu.Unlock()
	atomic.AddInt64(l.act, 1)
	return err
}

func (l *LogWrap) Get(offset uint64) (*packet.Publish, error) {
	p, err := l.real.Get(offset)
	l.mu.Lock()
	if err != nil {
		l.getErr = fmt.Sprintf("Get(%d): %v", offset, err)
		if l.Mismatch == "" {
			l.Mismatch = l.getErr
		}
	} else if want, ok := l.recent[offset]; ok && l.Mismatch == "" && (want != string(p.Topic)+"\x00"+string(p.Payload)) {
		l.Mismatch = fmt.Sprintf("Get(%d) returned %q=%.40q but the consumer was handed %.60q for that offset", offset, p.Topic, p.Payload, want)
	}
	l.mu.Unlock()
	return p, err
}

func (l *LogWrap) Consume(ctx context.Context, name string, f func(uint64, *packet.Publish) error) error {
	l.mu.Lock()
	l.consuming = true
	l.mu.Unlock()
	return l.real.Consume(ctx, name, func(off uint64, p *packet.Publish) error {
		l.mu.Lock()
		l.handed = append(l.handed, off)
		if l.recent == nil {
			l.recent = map[uint64]string{}
		}
		l.recent[off] = string(p.Topic) + "\x00" + string(p.Payload)
		delete(l.recent, off-200)
		l.mu.Unlock()
		err := f(off, p)
		l.mu.Lock()
		if int64(off) > l.consumed {
			l.consumed = int64(off)
		}
		l.mu.Unlock()
		atomic.AddInt64(l.act, 1)
		return err
	})
}

func (l *LogWrap) Stream(ctx context.Context, consumer stream.Consumer, f func(*packet.Publish) error) error {
	return l.real.Stream(ctx, consumer, f)
}

// ReadBackMismatch reports the first disagreement between Get and Consume ("" = none).
func (l *LogWrap) ReadBackMismatch() string { l.mu.Lock(); defer l.mu.Unlock(); return l.Mismatch }

// DelayNext makes the next k appends take d of real time (and then succeed).
func (l *LogWrap) DelayNext(k int, d time.Duration) {
	l.mu.Lock()
	l.delayNext, l.delay = k, d
	l.mu.Unlock()
}

// HangNext makes the next k appends take d of real time and then fail.
func (l *LogWrap) HangNext(k int, d time.Duration) {
	l.mu.Lock()
	l.hangNext, l.hang = k, d
	l.mu.Unlock()
}

// PanicNext makes the next k appends panic (before runs first); only for cases that run in a
// child process.
func (l *LogWrap) PanicNext(k int, before func()) {
	l.mu.Lock()
	l.panicNext, l.onPanic = k, before
	l.mu.Unlock()
}

// FailNext makes the next k appends fail without touching the log.
func (l *LogWrap) FailNext(k int) { l.mu.Lock(); l.failNext = k; l.mu.Unlock() }

// Appends returns a copy of the append records.
func (l *LogWrap) Appends() []AppendRec {
	l.mu.Lock()
	defer l.mu.Unlock()
	return append([]AppendRec{}, l.appends...)
}

// Handed returns the offsets handed to the consumer callback so far.
func (l *LogWrap) Handed() []uint64 {
	l.mu.Lock()
	defer l.mu.Unlock()
	return append([]uint64{}, l.handed...)
}

func (l *LogWrap) caughtUp() bool {
	l.mu.Lock()
	defer l.mu.Unlock()
	total := l.prefilled + l.appended
	return total == 0 || l.consumed >= total-1
}

func (l *LogWrap) sig() int64 {
	l.mu.Lock()
	defer l.mu.Unlock()
	return l.appended*1000003 + l.consumed + int64(len(l.handed))
}

// ---- in-memory message log ------------------------------------------------------------------

// memLog is a plain in-memory implementation of the message-log interface, used where the
// commit-log dependency must stay out of the picture (race-detector runs: the property's
// scope is wasp's own shared state, and the dependency has unsynchronised reads of its own).
type memLog struct {
	mu   sync.Mutex
	cond *sync.Cond
	msgs []*packet.Publish
}

func newMemLog() *memLog { l := &memLog{}; l.cond = sync.NewCond(&l.mu); return l }

func (l *memLog) Close() error { return nil }
func (l *memLog) Append(p *packet.Publish) error {
	l.mu.Lock()
	l.msgs = append(l.msgs, p)
	l.cond.Broadcast()
	l.mu.Unlock()
	return nil
}
func (l *memLog) Get(o uint64) (*packet.Publish, error) {
	l.mu.Lock()
	defer l.mu.Unlock()
	if o >= uint64(len(l.msgs)) {
		return nil, errors.New("memlog: offset out of range")
	}
	return l.msgs[o], nil
}
func (l *memLog) Consume(ctx context.Context, name string, f func(uint64, *packet.Publish) error) error {
	go func() { <-ctx.Done(); l.mu.Lock(); l.cond.Broadcast(); l.mu.Unlock() }()
	next := 0
	for {
		l.mu.Lock()
		for next >= len(l.msgs) && ctx.Err() == nil {
			l.cond.Wait()
		}
		if ctx.Err() != nil {
			l.mu.Unlock()
			return nil
		}
		p := l.msgs[next]
		l.mu.Unlock()
		if err := f(uint64(next), p); err != nil {
			return err
		}
		next++
	}
}
func (l *memLog) Stream(ctx context.Context, c stream.Consumer, f func(*packet.Publish) error) error {
	return errors.New("memlog: Stream not supported")
}

// ---- local registry wrapper ------------------------------------------------------------

// LocalWrap wraps the node's real session registry and remembers which connection belongs
// to which session id.
type LocalWrap struct {
	real    wasp.LocalState
	mu      sync.Mutex
	byConn  map[*Conn]string
	deleted map[string]bool
}

func (l *LocalWrap) Get(id string) *sessions.Session   { return l.real.Get(id) }
func (l *LocalWrap) ListSessions() []*sessions.Session { return l.real.ListSessions() }
func (l *LocalWrap) Create(id string, s *sessions.Session) *sessions.Session {
	if c, ok := s.ReadWriter().(*Conn); ok {
		l.mu.Lock()
		l.byConn[c] = id
		l.mu.Unlock()
	}
	return l.real.Create(id, s)
}
func (l *LocalWrap) Delete(id string) *sessions.Session {
	l.mu.Lock()
	l.deleted[id] = true
	l.mu.Unlock()
	return l.real.Delete(id)
}

// SessionOf returns the session id registered for a connection ("" if none).
func (l *LocalWrap) SessionOf(c *Conn) string {
	l.mu.Lock()
	defer l.mu.Unlock()
	return l.byConn[c]
}

// ---- in-flight table wrapper -------------------------------------------------------------

// AckWrap passes Insert/Ack through to the real ack.Queue and owns Expire: sweeps coming
// from the broker's own ticker are dropped unless ForwardTicker is set; the harness sweeps
// with the `now` it chooses.
type AckWrap struct {
	real          ack.Queue
	forwardTicker int32
	tickerSweeps  int64
	mu            sync.Mutex
	deadlines     map[string]time.Time
}

func (a *AckWrap) Insert(prefix string, pkt packet.Packet, deadline time.Time, cb ack.Callback) error {
	err := a.real.Insert(prefix, pkt, deadline, cb)
	if err == nil {
		if _, inbound := pkt.(*packet.PubRec); inbound {
			// an exchange started by the client: its identifier is in the client's number space
			return nil
		}
		if m, ok := pkt.(interface{ GetMessageId() int32 }); ok {
			a.mu.Lock()
			a.deadlines[fmt.Sprintf("%s/%d", prefix, m.GetMessageId())] = deadline
			a.mu.Unlock()
		}
	}
	return err
}
func (a *AckWrap) Ack(prefix string, pkt packet.Packet) error { return a.real.Ack(prefix, pkt) }
func (a *AckWrap) Expire(now time.Time) {
	atomic.AddInt64(&a.tickerSweeps, 1)
	if atomic.LoadInt32(&a.forwardTicker) != 0 {
		a.real.Expire(now)
	}
}

// Deadline returns the deadline the broker registered last for (session, packet id).
func (a *AckWrap) Deadline(session string, id uint16) (time.Time, bool) {
	a.mu.Lock()
	defer a.mu.Unlock()
	d, ok := a.deadlines[fmt.Sprintf("%s/%d", session, id)]
	return d, ok
}

// Sweep runs a harness-chosen expiry sweep on the real queue.
func (a *AckWrap) Sweep(now time.Time) { a.real.Expire(now) }

// SweepAll expires everything registered so far (now = far future).
func (a *AckWrap) SweepAll() { a.real.Expire(time.Now().Add(24 * time.Hour)) }

// ForwardTicker switches forwarding of the broker's own ticker sweeps.
func (a *AckWrap) ForwardTicker(on bool) {
	v := int32(0)
	if on {
		v = 1
	}
	atomic.StoreInt32(&a.forwardTicker, v)
}
func (a *AckWrap) TickerSweeps() int64 { return atomic.LoadInt64(&a.tickerSweeps) }

// ---- authentication handler of the harness ----------------------------------------------

// MountAuth admits everybody; the mount point is the username (or "_default"), session
// ids are sequential per node. Used by every L3 check except C16, which wires the real
// credential stores.
type MountAuth struct {
	prefix string
	n      int64
}

func (m *MountAuth) Authenticate(ctx context.Context, app auth.ApplicationContext, tr auth.TransportContext) (auth.Principal, error) {
	mp := string(app.Username)
	if mp == "" {
		mp = auth.DefaultMountPoint
	}
	return auth.Principal{ID: fmt.Sprintf("%s-s%d", m.prefix, atomic.AddInt64(&m.n, 1)), MountPoint: mp}, nil
}

// ---- taps -------------------------------------------------------------------------------

type nopTaps struct{}

func (nopTaps) Run(ctx context.Context)                                         {}
func (nopTaps) Dispatch(ctx context.Context, s string, p *packet.Publish) error { return nil }

// ---- node -------------------------------------------------------------------------------

// Node is one complete broker, assembled as cmd/wasp/main.go does.
type Node struct {
	ID      uint64
	Name    string
	Dir     string
	cl      *Cluster
	Log     *LogWrap
	Local   *LocalWrap
	State   distributed.State
	Acks    *AckWrap
	Q       *memberlist.TransmitLimitedQueue
	Manager wasp.Manager
	Writer  wasp.Writer
	Proc    wasp.PacketProcessor
	Members wasp.NodeMemberManager
	Dist    *wasp.PublishDistributor
	Auth    wasp.AuthenticationHandler

	ctx                      context.Context
	cancel                   context.CancelFunc
	wg                       sync.WaitGroup
	wctx                     context.Context
	wcancel                  context.CancelFunc
	wwg                      sync.WaitGroup
	grpcSrv                  *grpc.Server
	lis                      *bufconn.Listener
	client                   *grpc.ClientConn
	Down                     bool
	lives                    int
	loseReplies, repliesLost int64
	sentinel                 *Conn
	sentN                    int
	sentBuf                  []byte
}

// NodeOpts configures AddNode.
type NodeOpts struct {
	Auth     wasp.AuthenticationHandler // nil = MountAuth
	Dir      string                     // "" = fresh temp dir
	Prefill  []*packet.Publish          // appended to the log before the node starts
	MemLog   bool                       // in-memory message log instead of the commit log on disk
	NoServer bool
}

func nopCtx() context.Context {
	return wasp.StoreLogger(context.Background(), zap.NewNop())
}

// AddNode builds and starts a node.
func (cl *Cluster) AddNode(o NodeOpts) (*Node, error) {
	id := uint64(len(cl.Nodes) + 1)
	n, err := cl.buildNode(id, fmt.Sprintf("n%d", id), o)
	if err != nil {
		return nil, err
	}
	cl.Nodes = append(cl.Nodes, n)
	return n, nil
}

// RestartNode replaces the failed node at index i by a new broker process with the same
// node id (an empty data directory and empty state: the machine was replaced). The
// survivors are told through NotifyGossipJoin and the newcomer does a push/pull exchange
// with the first live node, as memberlist does on join. Session ids of the new life carry a
// different prefix so that they never collide with those of the first one.
func (cl *Cluster) RestartNode(i int) (*Node, error) {
	old := cl.Nodes[i]
	if !old.Down {
		return old, nil
	}
	old.lives++
	n, err := cl.buildNode(old.ID, old.Name, NodeOpts{Auth: &MountAuth{prefix: fmt.Sprintf("%sr%d%s", old.Name, old.lives, cl.idSuffix)}})
	if err != nil {
		return nil, err
	}
	n.lives = old.lives
	cl.mu.Lock()
	cl.restarts++
	cl.Nodes[i] = n
	cl.mu.Unlock()
	for _, s := range cl.Nodes {
		if s != n && !s.Down {
			s.Members.NotifyGossipJoin(n.ID)
			n.Members.NotifyGossipJoin(s.ID)
		}
	}
	for _, s := range cl.Nodes {
		if s != n && !s.Down {
			cl.FullSync(n, s)
			break
		}
	}
	atomic.AddInt64(&cl.activity, 1)
	return n, nil
}

func (cl *Cluster) buildNode(id uint64, name string, o NodeOpts) (*Node, error) {
	n := &Node{ID: id, Name: name, cl: cl, Dir: o.Dir}
	if n.Dir == "" {
		d, err := os.MkdirTemp(cl.TmpRoot, "node")
		if err != nil {
			return nil, err
		}
		n.Dir = d
	}
	var real messages.Log
	var err error
	if o.MemLog {
		real = newMemLog()
	} else if real, err = messages.New(n.Dir); err != nil {
		return nil, err
	}
	n.Log = &LogWrap{real: real, act: &cl.activity, seq: &cl.seq, consumed: -1}
	for _, p := range o.Prefill {
		if err := real.Append(p); err != nil {
			return nil, err
		}
		n.Log.prefilled++
	}
	n.Q = &memberlist.TransmitLimitedQueue{RetransmitMult: 3, NumNodes: func() int { return len(cl.Nodes) }}
	n.Local = &LocalWrap{real: wasp.NewState(id), byConn: map[*Conn]string{}, deleted: map[string]bool{}}
	n.State = distributed.NewState(id, n.Q, audit.NoneRecorder())
	n.Acks = &AckWrap{real: ack.NewQueue(), deadlines: map[string]time.Time{}}
	n.Dist = &wasp.PublishDistributor{ID: id, State: n.State.Subscriptions(), Storage: n.Log, Logger: zap.NewNop(), Transport: &clusterTransport{cl: cl, from: n}}
	n.Members = wasp.NewNodeMemberManager(id, n.Log, n.State)
	n.Auth = o.Auth
	if n.Auth == nil {
		n.Auth = &MountAuth{prefix: n.Name + cl.idSuffix}
	}
	n.ctx, n.cancel = context.WithCancel(nopCtx())
	w := wasp.NewWriter(id, n.State.Subscriptions(), n.Local, n.Acks)
	n.Writer = w
	n.Proc = wasp.NewPacketProcessor(n.Local, n.State, w, nopTaps{}, n.Dist, n.Acks)
	n.Manager = wasp.NewConnectionManager(n.Auth, n.Local, n.State, w, n.Proc, n.Acks)

	// inter-node RPC: the real mqttServer on an in-memory gRPC listener
	n.lis = bufconn.Listen(1 << 20)
	n.grpcSrv = grpc.NewServer(grpc.UnaryInterceptor(func(ctx context.Context, req interface{}, info *grpc.UnaryServerInfo, handler grpc.UnaryHandler) (interface{}, error) {
		resp, err := handler(ctx, req)
		if err == nil && atomic.LoadInt64(&n.loseReplies) > 0 {
			// the call was executed here; the caller never sees the reply: to gRPC's client side a
			// connection that breaks at that moment is "Unavailable"
			atomic.AddInt64(&n.loseReplies, -1)
			atomic.AddInt64(&n.repliesLost, 1)
			return nil, status.Error(codes.Unavailable, "transport is closing")
		}
		return resp, err
	}))
	wasp.NewMQTTServer(n.State, n.Local, n.Log, n.Dist, nil).Serve(n.grpcSrv)
	n.goRun(func() { n.grpcSrv.Serve(n.lis) })
	cc, err := grpc.DialContext(n.ctx, "bufnet", grpc.WithInsecure(), grpc.WithContextDialer(func(ctx context.Context, s string) (net.Conn, error) {
		return n.lis.Dial()
	}))
	if err != nil {
		return nil, err
	}
	n.client = cc

	n.goRun(func() { wasp.SchedulePublishes(id, w, n.Log)(n.ctx) })
	// the writer gets a context of its own: Run closes the writer's queue when its context ends,
	// and a log consumer or session goroutine that is still handing it a message at that moment
	// panics ("send on closed channel"). That is a shutdown race of the broker, not something a
	// client causes; Stop therefore ends the writer last.
	n.wctx, n.wcancel = context.WithCancel(nopCtx())
	n.wwg.Add(1)
	go func() {
		defer n.wwg.Done()
		w.Run(n.wctx, n.Log)
	}()
	n.goRun(func() { n.Proc.Run(n.ctx) })
	n.goRun(func() { n.Manager.Run(n.ctx) })

	// sentinel session: lets Settle see that the writer has drained its queue
	n.sentinel = NewConn(n.Name+"-sentinel", &cl.Clock, new(int64))
	ss, err := sessions.NewSession(n.sentinelID(), "", "sim", n.sentinel, &packet.Connect{ClientId: []byte("sentinel"), KeepaliveTimer: 30000})
	if err != nil {
		return nil, err
	}
	n.Local.real.Create(n.sentinelID(), ss)
	return n, nil
}

// LoseReplies makes the next k inter-node calls served by this node succeed locally while
// their caller gets codes.Unavailable (the connection broke before the reply arrived).
func (n *Node) LoseReplies(k int) { atomic.StoreInt64(&n.loseReplies, int64(k)) }

// RepliesLost counts the replies dropped that way so far.
func (n *Node) RepliesLost() int64 { return atomic.LoadInt64(&n.repliesLost) }

// Ctx is the node's context (carries the logger the broker code expects).
func (n *Node) Ctx() context.Context { return n.ctx }

func (n *Node) sentinelID() string { return "sentinel-" + n.Name }

func (n *Node) goRun(f func()) {
	n.wg.Add(1)
	go func() {
		defer n.wg.Done()
		f()
	}()
}

// Attach hands a new connection to the node's connection manager (as a listener would).
func (n *Node) Attach(c *Conn) {
	go n.Manager.Setup(n.ctx, transport.Metadata{Name: "sim", Channel: c, RemoteAddress: c.Name})
}

// flushWriter pushes a sentinel message through the writer queue and waits until it has
// been written: everything queued before it has then been handled.
func (n *Node) flushWriter(budget time.Duration) bool {
	n.sentN++
	payload := fmt.Sprintf("sentinel-%d", n.sentN)
	ctx, cancel := context.WithTimeout(n.ctx, budget)
	defer cancel()
	n.Writer.Send(ctx, []string{n.sentinelID()}, []int32{0}, &packet.Publish{Header: &packet.Header{}, Topic: []byte("/sentinel"), Payload: []byte(payload)})
	deadline := time.Now().Add(budget)
	for time.Now().Before(deadline) {
		n.sentBuf = append(n.sentBuf, n.sentinel.Take()...)
		pkts, rest, _ := Parse(n.sentBuf)
		n.sentBuf = rest
		for _, p := range pkts {
			if p.Type == PUBLISH && p.Payload == payload {
				return true
			}
		}
		time.Sleep(50 * time.Microsecond)
	}
	return false
}

// Stop shuts the node down (process stop, not a crash: goroutines are cancelled).
func (n *Node) Stop() {
	if n.cancel == nil {
		return
	}
	n.cancel()
	n.cancel = nil
	if n.client != nil {
		n.client.Close()
	}
	n.grpcSrv.Stop()
	n.sentinel.Close()
	done := make(chan struct{})
	go func() { n.wg.Wait(); close(done) }()
	select {
	case <-done:
	case <-time.After(5 * time.Second):
	}
	// session goroutines are not tracked: give them a moment to notice that their connections
	// are gone before the writer's queue is closed under them
	for until := time.Now().Add(300 * time.Millisecond); time.Now().Before(until) && len(n.Local.real.ListSessions()) > 1; {
		time.Sleep(time.Millisecond)
	}
	n.wcancel()
	wdone := make(chan struct{})
	go func() { n.wwg.Wait(); close(wdone) }()
	select {
	case <-wdone:
	case <-time.After(5 * time.Second):
	}
	n.Log.Close()
}

// ---- inter-node transport with fault plan ---------------------------------------------------

// CallRec is one inter-node call attempt.
type CallRec struct {
	Seq  int64
	From uint64
	To   uint64
	Err  string
}

type clusterTransport struct {
	cl   *Cluster
	from *Node
}

func (t *clusterTransport) Call(id uint64, f func(*grpc.ClientConn) error) error {
	cl := t.cl
	cl.mu.Lock()
	var target *Node
	for _, n := range cl.Nodes {
		if n.ID == id {
			target = n
		}
	}
	unreachable := cl.unreachable[id] || target == nil || target.Down
	cl.mu.Unlock()
	rec := CallRec{Seq: atomic.AddInt64(&cl.seq, 1), From: t.from.ID, To: id}
	var err error
	if unreachable {
		// what the production transport (cluster/membership pool) answers for a peer it cannot
		// call — its own sentinels, plain or wrapped, not an error invented here: code that
		// looks at the identity of the error must see the real thing
		switch k := atomic.AddInt64(&cl.unreachableCalls, 1) % 4; {
		case target == nil || target.Down || k == 0:
			err = membership.ErrPeerNotFound
		case k == 1:
			err = membership.ErrPeerDisabled
		case k == 2:
			err = fmt.Errorf("call to %d failed: %w", id, membership.ErrPeerNotFound)
		default:
			err = errors.New("injected: peer unreachable")
		}
	} else {
		err = f(target.client)
	}
	if err != nil {
		rec.Err = err.Error()
	}
	cl.mu.Lock()
	cl.calls = append(cl.calls, rec)
	cl.mu.Unlock()
	atomic.AddInt64(&cl.activity, 1)
	return err
}
