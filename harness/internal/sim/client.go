package sim

import (
	"fmt"
)

// Client is a scripted MQTT client on a fake connection. It never blocks: Send writes
// bytes, Pump parses whatever the broker has written so far and answers deliveries
// according to its acknowledgement policy.
type Client struct {
	Name string
	Conn *Conn
	Node *Node
	cl   *Cluster

	Attached bool
	Dead     bool // its node failed: the connection is cut, nothing more is read
	Refused  bool // got a CONNACK with a refusal code
	Accepted bool // got CONNACK 0
	ParseErr error

	// AutoAck: answer QoS 1 PUBLISH with PUBACK, QoS 2 with PUBREC, PUBREL with PUBCOMP,
	// and inbound PUBREC (for the client's own QoS 2 publishes) with PUBREL.
	AutoAck bool

	// NoDeliveryAck: deliveries (PUBLISH, PUBREL from the broker) are read but not answered; the
	// client's own publishes are still completed (PUBREC is answered with PUBREL)
	NoDeliveryAck bool
	// HoldRel: identifiers of the client's own QoS 2 publishes whose PUBREC is not answered
	// automatically (the script sends the PUBREL later)
	HoldRel map[uint16]bool

	// partial: the client has written only the first bytes of a packet; its automatic
	// acknowledgements wait until the packet is complete (a client does not interleave its own packets)
	partial  bool
	deferred [][]byte

	buf    []byte
	Rx     []Packet // every packet received, in order
	nextID uint16
}

// NewClient creates a client with a fresh connection (not yet attached to a node).
func (cl *Cluster) NewClient(name string) *Client {
	c := &Client{Name: name, cl: cl, AutoAck: true, nextID: 1}
	c.Conn = NewConn(name, &cl.Clock, &cl.activity)
	cl.Clients = append(cl.Clients, c)
	// a broker write that stops in the middle of a packet: the client says something that needs
	// an answer (PINGREQ) right then, see Conn.onPartial
	c.Conn.OnPartialWrite(func() {
		if c.Accepted {
			c.sendAuto(EncPingReq())
		}
	})
	return c
}

// AttachTo hands the connection to a node (the TCP accept).
func (c *Client) AttachTo(n *Node) {
	c.Node = n
	c.Attached = true
	n.Attach(c.Conn)
}

// Send writes raw bytes.
func (c *Client) Send(b []byte) { c.Conn.ClientWrite(b) }

// BeginPartial / EndPartial bracket a packet that the client writes in two pieces.
func (c *Client) BeginPartial() { c.partial = true }
func (c *Client) EndPartial() {
	c.partial = false
	for _, b := range c.deferred {
		c.Send(b)
	}
	c.deferred = nil
}

func (c *Client) sendAuto(b []byte) {
	if c.partial {
		c.deferred = append(c.deferred, b)
		return
	}
	c.Send(b)
}

// NextID hands out client-side packet identifiers 1,2,3,…
func (c *Client) NextID() uint16 {
	id := c.nextID
	c.nextID++
	if c.nextID == 0 {
		c.nextID = 1
	}
	return id
}

// Close drops the connection from the client side.
func (c *Client) Close() { c.Conn.ClientClose() }

// Pump parses new bytes from the broker; returns true if anything was received.
func (c *Client) Pump() bool {
	if c.Dead {
		return false
	}
	b := c.Conn.Take()
	if len(b) == 0 {
		return false
	}
	c.buf = append(c.buf, b...)
	pkts, rest, err := Parse(c.buf)
	c.buf = rest
	if err != nil && c.ParseErr == nil {
		c.ParseErr = fmt.Errorf("client %s: %v (after %d packets)", c.Name, err, len(c.Rx))
		c.buf = nil
	}
	for _, p := range pkts {
		c.Rx = append(c.Rx, p)
		switch p.Type {
		case CONNACK:
			if p.Code == 0 {
				c.Accepted = true
			} else {
				c.Refused = true
			}
		}
		if !c.AutoAck || c.Conn.State().ClientClosed {
			continue
		}
		switch p.Type {
		case PUBLISH:
			if c.NoDeliveryAck {
				break
			}
			if p.QoS == 1 {
				c.sendAuto(EncAck(PUBACK, p.ID))
			} else if p.QoS == 2 {
				c.sendAuto(EncAck(PUBREC, p.ID))
			}
		case PUBREL:
			if c.NoDeliveryAck {
				break
			}
			c.sendAuto(EncAck(PUBCOMP, p.ID))
		case PUBREC:
			if !c.HoldRel[p.ID] {
				c.sendAuto(EncAck(PUBREL, p.ID))
			}
		}
	}
	return true
}

// Received returns the PUBLISH packets received so far.
func (c *Client) Publishes() []Packet {
	var out []Packet
	for _, p := range c.Rx {
		if p.Type == PUBLISH {
			out = append(out, p)
		}
	}
	return out
}

// Has reports whether a packet of that type and id was received.
func (c *Client) Has(typ byte, id uint16) bool {
	for _, p := range c.Rx {
		if p.Type == typ && p.ID == id {
			return true
		}
	}
	return false
}

// Count counts received packets of a type.
func (c *Client) Count(typ byte) int {
	n := 0
	for _, p := range c.Rx {
		if p.Type == typ {
			n++
		}
	}
	return n
}
