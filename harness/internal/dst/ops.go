package dst

import (
	"fmt"
	"sort"
	"strings"

	"github.com/vx-labs/mqtt-protocol/packet"
	"pgregory.net/rapid"
)

// Op is one local mutation of a node's replicated state, as plain data.
type Op struct {
	Op      string `json:"op"` // sess.create sess.delete sess.delpeer sub.create sub.delete sub.delsession sub.delpeer top.set top.delete
	Sess    int    `json:"sess,omitempty"`
	Filter  int    `json:"filter,omitempty"`
	Topic   int    `json:"topic,omitempty"`
	QoS     int32  `json:"qos,omitempty"`
	Payload string `json:"payload,omitempty"`
	Peer    uint64 `json:"peer,omitempty"`
	Will    bool   `json:"will,omitempty"`
	// BadID (sess.create): the client identifier is not valid UTF-8, as a client may send it
	// (the decoder hands the bytes through). The record cannot be serialised; the operation
	// has to be refused without leaving a trace (model: no effect).
	BadID bool `json:"bad_id,omitempty"`
}

// Pools of names; everything lives in mount point "mp" (the broker always prefixes).
var (
	// the last filter and the last topic are as long as MQTT allows (65535 bytes on the wire); with
	// the mount-point prefix in front the stored form is longer than that
	Filters = []string{"mp/a", "mp/a/b", "mp/+", "mp/#", "mp/a/+", "mp/b", "mp/a/#", "mp/+/b", "mp/mp/a", "mp/long/" + strings.Repeat("f", 65530)}
	Topics  = []string{"mp/a", "mp/a/b", "mp/b", "mp/a/b/c", "mp/a/c", "mp/long/" + strings.Repeat("t", 65530)}
)

// SessID: session ids are opaque strings chosen by the authentication back end. Indices 90
// and 91 name two ids of which one is a '/'-prefix of the other ("u", "u/mp"): together with
// the filters "mp/mp/a" and "mp/a" they make two different (session, filter) pairs whose naive
// concatenations coincide ("u"+"/"+"mp/mp/a" == "u/mp"+"/"+"mp/a"); 92/93 do the same with '|'.
func SessID(i int) string {
	switch i {
	case 90:
		return "u"
	case 91:
		return "u/mp"
	case 92:
		return "v"
	case 93:
		return "v|mp"
	}
	return fmt.Sprintf("sess-%d", i)
}
func ClientID(i int) string { return fmt.Sprintf("client-%d", i%3) }

func will(op Op) *packet.Publish {
	if !op.Will {
		return nil
	}
	return &packet.Publish{Header: &packet.Header{Qos: 1}, Topic: []byte("will/" + SessID(op.Sess)), Payload: []byte("bye")}
}

// Apply performs op on n through the public mutators; errors are returned for the caller
// to judge (Create of a listed session is refused by design).
func Apply(n *Node, op Op) error {
	n.Look()
	switch op.Op {
	case "sess.create":
		cid := ClientID(op.Sess)
		if op.BadID {
			cid = "client-\xff\xfe"
		}
		return n.State.SessionMetadatas().Create(SessID(op.Sess), cid, 1000+int64(op.Sess), will(op), "mp")
	case "sess.delete":
		return n.State.SessionMetadatas().Delete(SessID(op.Sess))
	case "sess.delpeer":
		return n.State.SessionMetadatas().DeletePeer(op.Peer)
	case "sub.create":
		return n.State.Subscriptions().Create(SessID(op.Sess), []byte(Filters[op.Filter]), op.QoS)
	case "sub.delete":
		return n.State.Subscriptions().Delete(SessID(op.Sess), []byte(Filters[op.Filter]))
	case "sub.delsession":
		n.State.Subscriptions().DeleteSession(SessID(op.Sess))
		return nil
	case "sub.delpeer":
		n.State.Subscriptions().DeletePeer(op.Peer)
		return nil
	case "top.set":
		return n.State.Topics().Set(&packet.Publish{Header: &packet.Header{Retain: true, Qos: op.QoS}, Topic: []byte(Topics[op.Topic]), Payload: []byte(op.Payload)})
	case "top.delete":
		return n.State.Topics().Delete([]byte(Topics[op.Topic]))
	}
	return fmt.Errorf("bad op %q", op.Op)
}

// Sem is the independent model of what the mutators mean on ONE node whose clock strictly
// increases: plain maps, no timestamps.
type Sem struct {
	Sess map[string]string // session id -> visible string
	Sub  map[string]string // "filter|session" -> visible string
	SubP map[string]uint64 // "filter|session" -> owning peer
	SesP map[string]uint64
	Ret  map[string]string
}

func NewSem() *Sem {
	return &Sem{Sess: map[string]string{}, Sub: map[string]string{}, SubP: map[string]uint64{}, SesP: map[string]uint64{}, Ret: map[string]string{}}
}

// Apply mirrors Apply(n, op) for a node with id self; it returns the keys the op touched
// (for the "every touched entry appears in the broadcast" oracle).
func (m *Sem) Apply(self uint64, op Op) (touched []string) {
	sid := SessID(op.Sess)
	switch op.Op {
	case "sess.create":
		if _, ok := m.Sess[sid]; ok || op.BadID {
			return nil // refused
		}
		lwt := "-"
		if op.Will {
			lwt = fmt.Sprintf("%s=%q q%d r%v", "will/"+sid, "bye", 1, false)
		}
		m.Sess[sid] = fmt.Sprintf("%s client=%s peer=%d mp=%s at=%d lwt=%s", sid, ClientID(op.Sess), self, "mp", 1000+int64(op.Sess), lwt)
		m.SesP[sid] = self
		return []string{"sess:" + sid}
	case "sess.delete":
		if _, ok := m.Sess[sid]; !ok {
			return nil
		}
		delete(m.Sess, sid)
		delete(m.SesP, sid)
		return []string{"sess:" + sid}
	case "sess.delpeer":
		for k, p := range m.SesP {
			if p == op.Peer {
				delete(m.Sess, k)
				delete(m.SesP, k)
				touched = append(touched, "sess:"+k)
			}
		}
	case "sub.create":
		k := Filters[op.Filter] + "|" + sid
		m.Sub[k] = fmt.Sprintf("%s|%s peer=%d qos=%d", Filters[op.Filter], sid, self, op.QoS)
		m.SubP[k] = self
		return []string{"sub:" + k}
	case "sub.delete":
		k := Filters[op.Filter] + "|" + sid
		delete(m.Sub, k)
		delete(m.SubP, k)
		return []string{"sub:" + k}
	case "sub.delsession":
		for k := range m.Sub {
			if len(k) > len(sid) && k[len(k)-len(sid)-1:] == "|"+sid {
				delete(m.Sub, k)
				delete(m.SubP, k)
				touched = append(touched, "sub:"+k)
			}
		}
	case "sub.delpeer":
		for k, p := range m.SubP {
			if p == op.Peer {
				delete(m.Sub, k)
				delete(m.SubP, k)
				touched = append(touched, "sub:"+k)
			}
		}
	case "top.set":
		m.Ret[Topics[op.Topic]] = fmt.Sprintf("%s=%q q%d", Topics[op.Topic], op.Payload, op.QoS)
		return []string{"ret:" + Topics[op.Topic]}
	case "top.delete":
		delete(m.Ret, Topics[op.Topic])
		return []string{"ret:" + Topics[op.Topic]}
	}
	sort.Strings(touched)
	return touched
}

// View of the semantic model.
func (m *Sem) View() View {
	v := View{Sessions: []string{}, Subscriptions: []string{}, Retained: []string{}}
	for _, s := range m.Sess {
		v.Sessions = append(v.Sessions, s)
	}
	for _, s := range m.Sub {
		v.Subscriptions = append(v.Subscriptions, s)
	}
	for _, s := range m.Ret {
		v.Retained = append(v.Retained, s)
	}
	sort.Strings(v.Sessions)
	sort.Strings(v.Subscriptions)
	sort.Strings(v.Retained)
	return v
}

// GenOp draws one mutation. peers are the peer ids bulk operations may name.
func GenOp(t *rapid.T, nSess, nFilters, nTopics int, peers []uint64, bulk bool) Op {
	hi := 8
	if bulk {
		hi = 11
	}
	switch x := rapid.IntRange(0, hi).Draw(t, "op"); x {
	case 0:
		return Op{Op: "sess.create", Sess: rapid.IntRange(0, nSess-1).Draw(t, "sess"), Will: rapid.Bool().Draw(t, "will"), BadID: rapid.IntRange(0, 9).Draw(t, "badID") == 0}
	case 1:
		return Op{Op: "sess.delete", Sess: rapid.IntRange(0, nSess-1).Draw(t, "sess")}
	case 2, 3, 4:
		if rapid.IntRange(0, 15).Draw(t, "maxLength") == 0 {
			return Op{Op: rapid.SampledFrom([]string{"sub.create", "sub.create", "sub.delete", "top.set", "top.set", "top.delete"}).Draw(t, "longOp"), Sess: rapid.IntRange(0, nSess-1).Draw(t, "sess"), Filter: len(Filters) - 1, Topic: len(Topics) - 1, Payload: "x", QoS: 1}
		}
		if rapid.IntRange(0, 7).Draw(t, "aliasing") == 0 {
			return Op{Op: rapid.SampledFrom([]string{"sub.create", "sub.create", "sub.delete"}).Draw(t, "aliasOp"), Sess: rapid.SampledFrom([]int{90, 91}).Draw(t, "aliasSess"), Filter: rapid.SampledFrom([]int{8, 0}).Draw(t, "aliasFilter"), QoS: int32(rapid.IntRange(0, 2).Draw(t, "qos"))}
		}
		return Op{Op: "sub.create", Sess: rapid.IntRange(0, nSess-1).Draw(t, "sess"), Filter: rapid.IntRange(0, nFilters-1).Draw(t, "filter"), QoS: int32(rapid.IntRange(0, 2).Draw(t, "qos"))}
	case 5:
		return Op{Op: "sub.delete", Sess: rapid.IntRange(0, nSess-1).Draw(t, "sess"), Filter: rapid.IntRange(0, nFilters-1).Draw(t, "filter")}
	case 6, 7:
		return Op{Op: "top.set", Topic: rapid.IntRange(0, nTopics-1).Draw(t, "topic"), Payload: rapid.SampledFrom([]string{"x", "y", "zz"}).Draw(t, "payload"), QoS: int32(rapid.IntRange(0, 1).Draw(t, "qos"))}
	case 8:
		return Op{Op: "top.delete", Topic: rapid.IntRange(0, nTopics-1).Draw(t, "topic")}
	case 9:
		return Op{Op: "sub.delsession", Sess: rapid.IntRange(0, nSess-1).Draw(t, "sess")}
	case 10:
		return Op{Op: "sub.delpeer", Peer: rapid.SampledFrom(peers).Draw(t, "peer")}
	default:
		return Op{Op: "sess.delpeer", Peer: rapid.SampledFrom(peers).Draw(t, "peer")}
	}
}
