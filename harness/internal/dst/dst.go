// Package dst wraps wasp's replicated state (wasp/distributed) for the L2 checks:
// a node = real distributed.State + its own real memberlist.TransmitLimitedQueue whose
// broadcasts the harness drains and delivers by hand through the real delegate methods.
package dst

import (
	"fmt"
	"sort"
	"sync/atomic"

	"github.com/golang/protobuf/proto"
	"github.com/hashicorp/memberlist"
	"github.com/vx-labs/mqtt-protocol/packet"
	"github.com/vx-labs/wasp/v4/wasp/api"
	"github.com/vx-labs/wasp/v4/wasp/audit"
	"github.com/vx-labs/wasp/v4/wasp/distributed"
	"verifharness/internal/ref"
)

// Node is one replica.
type Node struct {
	ID    uint64
	State distributed.State
	Q     *memberlist.TransmitLimitedQueue
	looks int64 // atomic: Deliver is also called from the concurrent programs of C20
}

// NewNode builds a replica the way cmd/wasp does (NewState with a TransmitLimitedQueue);
// RetransmitMult 1 and NumNodes 1 make GetBroadcasts hand out every message exactly once.
func NewNode(id uint64) *Node {
	q := &memberlist.TransmitLimitedQueue{RetransmitMult: 1, NumNodes: func() int { return 1 }}
	return &Node{ID: id, State: distributed.NewState(id, q, audit.NoneRecorder()), Q: q}
}

// Drain returns the broadcasts queued since the last call (copied), in no particular order.
func (n *Node) Drain() [][]byte {
	var out [][]byte
	for {
		b := n.Q.GetBroadcasts(0, 1<<30)
		if len(b) == 0 {
			return out
		}
		for _, m := range b {
			out = append(out, append([]byte{}, m...))
		}
	}
}

// Deliver hands one gossip message to the node through the real delegate.
func (n *Node) Deliver(msg []byte) {
	n.Look()
	n.State.Distributor().NotifyMsg(msg)
}

// LookTopics are looked up (as a publish arriving at that moment would) before every delivery and
// every local operation (one of the first four in turn; all of them when a view is taken): reading must not change what any later read answers. They include empty
// levels at the end, at the start and in the middle.
var LookTopics = []string{"mp/a/", "mp/", "mp/a/b", "mp//b", "mp/a", "mp/b", "mp/a/b/c", "mp/mp/a", "mp/c"}

// Look performs the reads; the answers are discarded here (ViewOf compares the final ones).
func (n *Node) Look() {
	k := atomic.AddInt64(&n.looks, 1)
	if k%5 == 0 {
		n.State.Topics().Get([]byte("mp/a/+"))
		return
	}
	n.State.Subscriptions().ByPattern([]byte(LookTopics[k%5-1]))
}

// Snapshot / MergeSnapshot are the full-state exchange.
func (n *Node) Snapshot() []byte       { return n.State.Distributor().LocalState(false) }
func (n *Node) MergeSnapshot(b []byte) { n.State.Distributor().MergeRemoteState(b, false) }

// clock control -----------------------------------------------------------------------

var now int64

// InstallClock replaces distributed's clock by a harness-owned variable (SetNow).
func InstallClock() (restore func()) {
	return distributed.VerifSetClock(func() int64 { return atomic.LoadInt64(&now) })
}

// Bases for the harness clocks: small logical values and a realistic UnixNano (about 1.7e18,
// beyond the 2^53 a float64 holds exactly) — stamps a few nanoseconds apart up there are
// distinct integers and must stay distinct in every comparison.
var ClockBases = []int64{1_000_000, 1_000_000, 1_700_000_000_000_000_000, 1_700_000_000_000_000_123}

// SetNow sets what the next local write will be stamped with.
func SetNow(v int64) { atomic.StoreInt64(&now, v) }

// visible state -------------------------------------------------------------------------

// View is the canonical, comparable form of what a node lists.
type View struct {
	Sessions      []string `json:"sessions"`
	Subscriptions []string `json:"subscriptions"`
	Retained      []string `json:"retained"`
}

func lwtString(p *packet.Publish) string {
	if p == nil {
		return "-"
	}
	q, r := int32(0), false
	if p.Header != nil {
		q, r = p.Header.Qos, p.Header.Retain
	}
	return fmt.Sprintf("%s=%q q%d r%v", p.Topic, p.Payload, q, r)
}

// SessionString / SubscriptionString / RetainedString give the visible content of an entry
// (timestamps excluded: they are bookkeeping, not what a node "lists").
func SessionString(s *api.SessionMetadatas) string {
	return fmt.Sprintf("%s client=%s peer=%d mp=%s at=%d lwt=%s", s.SessionID, s.ClientID, s.Peer, s.MountPoint, s.ConnectedAt, lwtString(s.LWT))
}
func SubscriptionString(s *api.Subscription) string {
	return fmt.Sprintf("%s|%s peer=%d qos=%d", s.Pattern, s.SessionID, s.Peer, s.QoS)
}
func RetainedString(m *api.RetainedMessage) string {
	q := int32(0)
	if m.Publish.Header != nil {
		q = m.Publish.Header.Qos
	}
	return fmt.Sprintf("%s=%q q%d", m.Publish.Topic, m.Publish.Payload, q)
}

// ViewOf lists a node's visible state through its public read API.
func ViewOf(n *Node) View {
	v := View{Sessions: []string{}, Subscriptions: []string{}, Retained: []string{}}
	for _, s := range n.State.SessionMetadatas().All() {
		s := s
		v.Sessions = append(v.Sessions, SessionString(&s))
	}
	for _, s := range n.State.Subscriptions().All() {
		s := s
		v.Subscriptions = append(v.Subscriptions, SubscriptionString(&s))
	}
	// what a publish would be routed to must be what the listing says, under an independent matcher
	all := n.State.Subscriptions().All()
	for _, tp := range LookTopics {
		var want, got []string
		for _, s := range all {
			s := s
			if ref.MatchS(string(s.Pattern), tp) {
				want = append(want, SubscriptionString(&s))
			}
		}
		for _, s := range n.State.Subscriptions().ByPattern([]byte(tp)) {
			s := s
			got = append(got, SubscriptionString(&s))
		}
		sort.Strings(want)
		sort.Strings(got)
		if fmt.Sprint(want) != fmt.Sprint(got) {
			v.Subscriptions = append(v.Subscriptions, fmt.Sprintf("INCONSISTENT: topic %q is routed to %q, the listed subscriptions that match it are %q", tp, got, want))
		}
	}
	msgs, err := n.State.Topics().Get([]byte("#"))
	if err != nil {
		v.Retained = append(v.Retained, "ERROR "+err.Error())
	}
	for _, m := range msgs {
		m := m
		v.Retained = append(v.Retained, RetainedString(&m))
	}
	sort.Strings(v.Sessions)
	sort.Strings(v.Subscriptions)
	sort.Strings(v.Retained)
	return v
}

// Diff returns "" when two views are equal, else a short description.
func Diff(an string, a View, bn string, b View) string {
	for _, p := range []struct {
		kind string
		x, y []string
	}{{"sessions", a.Sessions, b.Sessions}, {"subscriptions", a.Subscriptions, b.Subscriptions}, {"retained", a.Retained, b.Retained}} {
		if fmt.Sprint(p.x) != fmt.Sprint(p.y) {
			return fmt.Sprintf("%s differ: %s lists %q, %s lists %q", p.kind, an, p.x, bn, p.y)
		}
	}
	return ""
}

// LWW reference model -----------------------------------------------------------------

// Entry is one replicated entry in the model: timestamps plus visible content.
type Entry struct {
	Kind    string // "sess" | "sub" | "ret"
	Key     string
	Added   int64
	Deleted int64
	Visible string // content listed when the entry is present
}

func (e Entry) TS() int64 {
	if e.Added > e.Deleted {
		return e.Added
	}
	return e.Deleted
}
func (e Entry) Present() bool { return e.Added > 0 && e.Added > e.Deleted }

// Decode splits a gossip message / snapshot into model entries.
func Decode(msg []byte) ([]Entry, error) {
	evt := &api.StateBroadcastEvent{}
	if err := proto.Unmarshal(msg, evt); err != nil {
		return nil, err
	}
	var out []Entry
	for _, s := range evt.SessionMetadatas {
		out = append(out, Entry{"sess", s.SessionID, s.LastAdded, s.LastDeleted, SessionString(s)})
	}
	for _, s := range evt.Subscriptions {
		out = append(out, Entry{"sub", string(s.Pattern) + "|" + s.SessionID, s.LastAdded, s.LastDeleted, SubscriptionString(s)})
	}
	for _, m := range evt.RetainedMessages {
		if m.Publish == nil {
			out = append(out, Entry{"ret", "<nil publish>", m.LastAdded, m.LastDeleted, "<nil publish>"})
			continue
		}
		out = append(out, Entry{"ret", string(m.Publish.Topic), m.LastAdded, m.LastDeleted, RetainedString(m)})
	}
	return out, nil
}

// Table is the reference last-writer-wins table.
type Table struct {
	M map[string]Entry
	// Ambiguous is set when two different entries for one key carry the same timestamp
	// but differ in what they make visible: "greatest timestamp" does not pick a winner.
	Ambiguous bool
}

func NewTable() *Table { return &Table{M: map[string]Entry{}} }

// Apply merges an entry: strictly newer wins.
func (t *Table) Apply(e Entry) {
	k := e.Kind + ":" + e.Key
	cur, ok := t.M[k]
	if !ok || e.TS() > cur.TS() {
		t.M[k] = e
		return
	}
	if e.TS() == cur.TS() && (e.Present() != cur.Present() || (e.Present() && e.Visible != cur.Visible)) {
		t.Ambiguous = true
	}
}

// Clone copies the table.
func (t *Table) Clone() *Table {
	n := NewTable()
	for k, v := range t.M {
		n.M[k] = v
	}
	n.Ambiguous = t.Ambiguous
	return n
}

// View is what a node holding exactly this table must list.
func (t *Table) View() View {
	v := View{Sessions: []string{}, Subscriptions: []string{}, Retained: []string{}}
	for _, e := range t.M {
		if !e.Present() {
			continue
		}
		switch e.Kind {
		case "sess":
			v.Sessions = append(v.Sessions, e.Visible)
		case "sub":
			v.Subscriptions = append(v.Subscriptions, e.Visible)
		case "ret":
			v.Retained = append(v.Retained, e.Visible)
		}
	}
	sort.Strings(v.Sessions)
	sort.Strings(v.Subscriptions)
	sort.Strings(v.Retained)
	return v
}

// Batch merges several gossip messages into one StateBroadcastEvent (what memberlist's
// compound messages / a full-state push amount to for the receiver's merge code).
func Batch(msgs ...[]byte) []byte {
	all := &api.StateBroadcastEvent{}
	for _, m := range msgs {
		evt := &api.StateBroadcastEvent{}
		if proto.Unmarshal(m, evt) != nil {
			continue
		}
		all.Subscriptions = append(all.Subscriptions, evt.Subscriptions...)
		all.SessionMetadatas = append(all.SessionMetadatas, evt.SessionMetadatas...)
		all.RetainedMessages = append(all.RetainedMessages, evt.RetainedMessages...)
	}
	b, _ := proto.Marshal(all)
	return b
}
