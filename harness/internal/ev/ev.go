// Package ev is the case recorder shared by every property package.
//
// A check calls Case (or CaseKey) once per generated/enumerated case, Fail when the oracle
// disagrees, and Flush from TestMain. The driver (/verif/check) merges the per-process
// stats files into /verif/evidence/<id>.json, so every number in the evidence is counted
// here, on the run that produced it.
package ev

import (
	"encoding/binary"
	"encoding/json"
	"fmt"
	"hash/fnv"
	"os"
	"path/filepath"
	"sort"
	"strconv"
	"strings"
	"sync"
	"sync/atomic"
	"testing"
)

// TB is the part of testing.T / rapid.T the interpreters need.
type TB interface {
	Fatalf(format string, args ...interface{})
	Logf(format string, args ...interface{})
	Helper()
}

const maxHashes = 4 << 20

type sample struct {
	h uint64
	v json.RawMessage
}

type recorder struct {
	mu          sync.Mutex
	evaluations int64
	nontrivial  int64
	hashes      map[uint64]struct{}
	hashesFull  bool
	labels      map[string]int64
	counters    map[string]int64
	first       []json.RawMessage
	nt          []sample // the k non-trivial cases with the smallest hash (deterministic reservoir)
	exhaustive  []string
	notes       []string
}

var r = &recorder{
	hashes:   map[uint64]struct{}{},
	labels:   map[string]int64{},
	counters: map[string]int64{},
}

func hash64(b []byte) uint64 {
	h := fnv.New64a()
	h.Write(b)
	return h.Sum64()
}

// Case records one generated case. c must be JSON-serialisable; it is hashed for the
// distinct count when nontrivial.
func Case(nontrivial bool, c interface{}, labels ...string) {
	var raw []byte
	if nontrivial || needSample() {
		raw, _ = json.Marshal(c)
	}
	record(nontrivial, raw, func() []byte { return raw }, labels)
}

// CaseKey is the cheap variant for enumerators: key identifies the case, mk builds a
// readable sample only when one is kept.
func CaseKey(nontrivial bool, key string, mk func() interface{}, labels ...string) {
	record(nontrivial, []byte(key), func() []byte { b, _ := json.Marshal(mk()); return b }, labels)
}

func needSample() bool {
	r.mu.Lock()
	defer r.mu.Unlock()
	return len(r.first) < 2
}

// small keeps evidence samples readable: a very long case is kept as its leading part.
func small(b []byte) []byte {
	if len(b) <= 3000 {
		return b
	}
	out, _ := json.Marshal(map[string]interface{}{"truncated_case_bytes": len(b), "leading_part": string(b[:2500])})
	return out
}

func record(nontrivial bool, key []byte, mkFull func() []byte, labels []string) {
	mk := func() []byte { return small(mkFull()) }
	r.mu.Lock()
	defer r.mu.Unlock()
	r.evaluations++
	for _, l := range labels {
		r.labels[l]++
	}
	if len(r.first) < 2 {
		r.first = append(r.first, json.RawMessage(mk()))
	}
	if !nontrivial {
		return
	}
	r.nontrivial++
	h := hash64(key)
	if _, ok := r.hashes[h]; ok {
		return
	}
	if len(r.hashes) >= maxHashes {
		r.hashesFull = true // counted conservatively: further distinct cases are not added
		return
	}
	r.hashes[h] = struct{}{}
	const k = 4
	if len(r.nt) < k || h < r.nt[len(r.nt)-1].h {
		r.nt = append(r.nt, sample{h, json.RawMessage(mk())})
		sort.Slice(r.nt, func(i, j int) bool { return r.nt[i].h < r.nt[j].h })
		if len(r.nt) > k {
			r.nt = r.nt[:k]
		}
	}
}

// Label adds to the label histogram without counting a case.
func Label(l string) { Count("label:"+l, 1) }

// Count adds n to a named counter reported under coverage.counters.
func Count(name string, n int64) {
	r.mu.Lock()
	r.counters[name] += n
	r.mu.Unlock()
}

// Exhaustive records that a finite sub-space was enumerated completely.
func Exhaustive(desc string) {
	r.mu.Lock()
	r.exhaustive = append(r.exhaustive, desc)
	r.mu.Unlock()
}

// Note attaches a free-text remark to the evidence.
func Note(s string) {
	r.mu.Lock()
	r.notes = append(r.notes, s)
	r.mu.Unlock()
}

// Tier is "quick" or "thorough".
func Tier() string {
	if os.Getenv("VERIF_TIER") == "thorough" {
		return "thorough"
	}
	return "quick"
}

// Scale picks by tier.
func Scale(quick, thorough int) int {
	if Tier() == "thorough" {
		return thorough
	}
	return quick
}

// Seed is the VERIF_SEED the driver passed (0 if none).
func Seed() int64 {
	v, _ := strconv.ParseInt(os.Getenv("VERIF_SEED"), 10, 64)
	return v
}

// Shard returns (index, count) for enumerators that split their space over processes.
func Shard() (int, int) {
	s := os.Getenv("VERIF_SHARD")
	if s == "" {
		return 0, 1
	}
	p := strings.SplitN(s, "/", 2)
	i, _ := strconv.Atoi(p[0])
	n, _ := strconv.Atoi(p[1])
	if n < 1 {
		return 0, 1
	}
	return i, n
}

// Replay is the on-disk form of a failing (or regression) case.
type Replay struct {
	Property string          `json:"property"`
	Kind     string          `json:"kind"`
	Message  string          `json:"message,omitempty"`
	Case     json.RawMessage `json:"case"`
}

var property = "?"

// SetProperty names the property for replay files.
func SetProperty(id string) { property = id }

// WriteCurrent saves the case about to run so that the driver can promote it if the
// process dies before Fail is reached (panics in broker goroutines).
func WriteCurrent(kind string, c interface{}) {
	dir := os.Getenv("VERIF_REPLAY_DIR")
	if dir == "" {
		return
	}
	raw, _ := json.Marshal(c)
	b, _ := json.MarshalIndent(Replay{Property: property, Kind: kind, Case: raw}, "", " ")
	name := "current-" + os.Getenv("VERIF_RUN_ID") + ".json"
	os.WriteFile(filepath.Join(dir, name), b, 0644)
}

// Fail writes the replay file, prints the marker the driver looks for, and fails the test.
// Under rapid it is called for every failing attempt while shrinking; the last file
// written is the minimal case (rapid re-runs it last).
func Fail(t TB, kind string, c interface{}, format string, args ...interface{}) {
	t.Helper()
	msg := fmt.Sprintf(format, args...)
	raw, _ := json.Marshal(c)
	dir := os.Getenv("VERIF_REPLAY_DIR")
	if dir != "" && os.Getenv("VERIF_REPLAY_FILE") == "" {
		b, _ := json.MarshalIndent(Replay{Property: property, Kind: kind, Message: msg, Case: raw}, "", " ")
		p := filepath.Join(dir, "fail-"+os.Getenv("VERIF_RUN_ID")+".json")
		os.WriteFile(p, b, 0644)
	}
	Count("failures_seen_incl_shrinking", 1)
	t.Fatalf("%s: %s\ncase: %s", kind, msg, trunc(string(raw), 4000))
}

func trunc(s string, n int) string {
	if len(s) > n {
		return s[:n] + "…"
	}
	return s
}

// Kinds maps a case kind to its interpreter (decode + run + oracle).
type Kinds map[string]func(t TB, raw json.RawMessage)

// ReplayFile runs the file named by VERIF_REPLAY_FILE through the plain interpreter.
func ReplayFile(t *testing.T, kinds Kinds) {
	p := os.Getenv("VERIF_REPLAY_FILE")
	if p == "" {
		t.Skip("VERIF_REPLAY_FILE not set")
	}
	runFile(t, kinds, p)
}

// Regress replays every committed case in dir.
func Regress(t *testing.T, kinds Kinds, dir string) {
	files, _ := filepath.Glob(filepath.Join(dir, "*.json"))
	sort.Strings(files)
	for _, f := range files {
		f := f
		t.Run(filepath.Base(f), func(t *testing.T) { runFile(t, kinds, f) })
	}
	Count("regression_cases_replayed", int64(len(files)))
}

func runFile(t *testing.T, kinds Kinds, p string) {
	b, err := os.ReadFile(p)
	if err != nil {
		t.Fatalf("replay file: %v", err)
	}
	var rp Replay
	if err := json.Unmarshal(b, &rp); err != nil {
		t.Fatalf("replay file %s: %v", p, err)
	}
	f, ok := kinds[rp.Kind]
	if !ok {
		t.Skipf("replay file %s: kind %q is not handled by this package", p, rp.Kind)
	}
	f(t, rp.Case)
}

// Decode is a helper for interpreters.
func Decode(t TB, raw json.RawMessage, v interface{}) {
	if err := json.Unmarshal(raw, v); err != nil {
		t.Fatalf("bad case: %v", err)
	}
}

// Flush writes the stats file named by VERIF_OUT (and a sidecar of hashes).
func Flush() {
	out := os.Getenv("VERIF_OUT")
	if out == "" {
		return
	}
	r.mu.Lock()
	defer r.mu.Unlock()
	samples := append([]json.RawMessage{}, r.first...)
	for _, s := range r.nt {
		samples = append(samples, s.v)
	}
	st := map[string]interface{}{
		"evaluations":    r.evaluations,
		"nontrivial":     r.nontrivial,
		"distinct_local": len(r.hashes),
		"hashes_capped":  r.hashesFull,
		"labels":         r.labels,
		"counters":       r.counters,
		"samples":        samples,
		"exhaustive":     r.exhaustive,
		"notes":          r.notes,
	}
	b, _ := json.Marshal(st)
	os.WriteFile(out, b, 0644)
	hb := make([]byte, 0, 8*len(r.hashes))
	var tmp [8]byte
	for h := range r.hashes {
		binary.LittleEndian.PutUint64(tmp[:], h)
		hb = append(hb, tmp[:]...)
	}
	os.WriteFile(out+".hashes", hb, 0644)
}

// Main is the TestMain body every property package uses.
func Main(m *testing.M, id string) {
	SetProperty(id)
	code := m.Run()
	Flush()
	os.Exit(code)
}

var inconclusiveSeen int64

// Inconclusive records a case for which no verdict was reached (quiescence not reached within
// the wall-clock budget: a loaded machine). A few per process are tolerated — counted in the
// evidence as inconclusive_cases, the case is neither a pass nor a failure — so that a blip on
// a busy machine does not turn the whole run into "inconclusive"; more than
// VERIF_MAX_INCONCLUSIVE (default 3) per process means something systematic and ends the
// process (exit 2 from the driver).
func Inconclusive(t TB, msg string) {
	Count("inconclusive_cases", 1)
	n := atomic.AddInt64(&inconclusiveSeen, 1)
	max := int64(3)
	if v, err := strconv.ParseInt(os.Getenv("VERIF_MAX_INCONCLUSIVE"), 10, 64); err == nil {
		max = v
	}
	// keep the case for study: the case in progress is the one WriteCurrent saved last
	if dir := os.Getenv("VERIF_REPLAY_DIR"); dir != "" {
		if b, err := os.ReadFile(filepath.Join(dir, "current-"+os.Getenv("VERIF_RUN_ID")+".json")); err == nil {
			os.WriteFile(filepath.Join(dir, fmt.Sprintf("noverdict-%s-%d.json", os.Getenv("VERIF_RUN_ID"), n)), b, 0644)
		}
	}
	if n > max {
		t.Fatalf("VERIF-INCONCLUSIVE (%d cases without a verdict in this process) %s", n, msg)
	}
	fmt.Fprintf(os.Stderr, "[ev] case without a verdict tolerated (%d of at most %d): %s\n", n, max, msg)
}
