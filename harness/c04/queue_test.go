// C04 — every in-flight entry is resolved exactly once and independently of the others.
//
// ack.NewQueue() is driven with generated register / acknowledge / sweep histories; the
// oracle is a table of live entries plus an outcome counter per registration.
package c04

import (
	"crypto/sha256"
	"encoding/hex"
	"encoding/json"
	"fmt"
	"hash/crc32"
	"hash/fnv"
	"strconv"
	"testing"
	"time"

	"github.com/vx-labs/mqtt-protocol/packet"
	"github.com/vx-labs/wasp/v4/wasp/ack"
	"pgregory.net/rapid"
	"verifharness/internal/ev"
)

func TestMain(m *testing.M) { ev.Main(m, "C04") }

var t0 = time.Unix(1600000000, 0).UTC()

// Op is one step of a history.
//
//	ins: register (session S, id ID) as Kind ∈ pub1 pub2 pubrec pubrel | rejected kinds pub0 conn,
//	     deadline t0+D ms; Rearm ≥ 0: the callback re-registers the same key on expiry with
//	     deadline +Rearm ms (what the writer's callbacks do), -1: it does not.
//	ack: acknowledge (S, ID) with Kind ∈ puback pubrec pubrel pubcomp | non-acker conn
//	exp: sweep with now = t0+D ms
//	align: so many filler exchanges (session "filler", registered and acknowledged at once) that the
//	     NEXT successful registration on this queue has the same ordinal modulo M as the latest
//	     registration of key (S, ID) had — whatever per-queue counter of 8 or 16 bits the table
//	     keeps, it shows the same value again
type Op struct {
	Op    string `json:"op"`
	S     int    `json:"s,omitempty"`
	ID    int32  `json:"id,omitempty"`
	Kind  string `json:"kind,omitempty"`
	D     int64  `json:"d"`
	Rearm int64  `json:"rearm,omitempty"`
	M     int    `json:"m,omitempty"`
}

type Case struct {
	Ops []Op `json:"ops"`
	// IDs: when present, identifier k (1..len) of the operations stands for IDs[k-1]: the same
	// histories on identifiers at the edges of the 16-bit range and of narrower encodings
	// (127/128, 255/256, 32767/32768, the UTF-16 surrogate band 55296..57343, 65533, 65535)
	IDs []int32 `json:"ids,omitempty"`
}

func (c Case) id(k int32) int32 {
	if k >= 1 && int(k) <= len(c.IDs) {
		return c.IDs[k-1]
	}
	return k
}

var idMaps = [][]int32{
	nil, nil, nil,
	{55296, 56000, 57343, 65533},
	{127, 128, 255, 256},
	{32767, 32768, 65534, 65535},
	{1, 257, 65537 - 65536 + 512, 55297},
	{0xD800, 0xDFFF, 0xFFFD, 0xFFFE},
}

type reg struct {
	key      string
	stored   packet.Packet
	expect   byte
	deadline time.Time
	rearm    int64
	outcomes int
	sweepNo  int // sweep during which it was registered (0 = outside any sweep)
}

type event struct {
	reg      *reg
	expired  bool
	stored   packet.Packet
	received packet.Packet
}

func mkStored(kind string, id int32) (packet.Packet, byte, bool) {
	switch kind {
	case "pub1":
		return &packet.Publish{Header: &packet.Header{Qos: 1}, MessageId: id, Topic: []byte("t")}, packet.PUBACK, true
	case "pub2":
		return &packet.Publish{Header: &packet.Header{Qos: 2}, MessageId: id, Topic: []byte("t")}, packet.PUBREC, true
	case "pubrec":
		return &packet.PubRec{Header: &packet.Header{}, MessageId: id}, packet.PUBREL, true
	case "pubrel":
		return &packet.PubRel{Header: &packet.Header{}, MessageId: id}, packet.PUBCOMP, true
	case "pub0":
		return &packet.Publish{Header: &packet.Header{Qos: 0}, MessageId: id, Topic: []byte("t")}, 0, false
	default:
		return &packet.Connect{Header: &packet.Header{}}, 0, false
	}
}

func mkAck(kind string, id int32) (packet.Packet, byte, bool) {
	switch kind {
	case "puback":
		return &packet.PubAck{Header: &packet.Header{}, MessageId: id}, packet.PUBACK, true
	case "pubrec":
		return &packet.PubRec{Header: &packet.Header{}, MessageId: id}, packet.PUBREC, true
	case "pubrel":
		return &packet.PubRel{Header: &packet.Header{}, MessageId: id}, packet.PUBREL, true
	case "pubcomp":
		return &packet.PubComp{Header: &packet.Header{}, MessageId: id}, packet.PUBCOMP, true
	default:
		return &packet.Connect{Header: &packet.Header{}}, 0, false
	}
}

func sameSecond(a, b time.Time) bool { return a.Round(time.Second).Equal(b.Round(time.Second)) }

// run interprets a history. Deadlines are honoured "to the second": a sweep at `now` must
// expire a live entry if now-deadline >= 1s, must not if deadline-now >= 1s, and may do
// either in between (the model adopts what happened).
func run(c Case) (msg string, nontrivial bool) {
	defer func() {
		if r := recover(); r != nil {
			msg = fmt.Sprintf("panic: %v", r)
		}
	}()
	q := ack.NewQueue()
	live := map[string]*reg{}
	var regs []*reg
	var events []event
	sweepNo := 0
	inSweep := 0
	finalSweep := false
	count := 0                  // successful registrations on this queue so far
	ordinal := map[string]int{} // key -> ordinal of its latest successful registration
	fillerID := int32(0)
	var register func(key, sess string, stored packet.Packet, expect byte, deadline time.Time, rearm int64) error
	register = func(key, sess string, stored packet.Packet, expect byte, deadline time.Time, rearm int64) error {
		r := &reg{key: key, stored: stored, expect: expect, deadline: deadline, rearm: rearm, sweepNo: inSweep}
		err := q.Insert(sess, stored, deadline, func(expired bool, st, rcv packet.Packet) {
			events = append(events, event{r, expired, st, rcv})
			if expired && r.rearm >= 0 && !finalSweep {
				nd := r.deadline.Add(time.Duration(r.rearm) * time.Millisecond)
				// the exchange continues under the same key, as sendQoS1/sendQoS2/completeQoS2 do
				if err := register(r.key, sess, r.stored, r.expect, nd, r.rearm); err != nil {
					events = append(events, event{reg: nil}) // marker: re-registration refused
				}
			}
		})
		if err == nil {
			regs = append(regs, r)
			live[key] = r
			count++
			ordinal[key] = count
		}
		return err
	}
	sameSecondPair := func() bool {
		var ds []time.Time
		for _, r := range live {
			ds = append(ds, r.deadline)
		}
		for i := range ds {
			for j := i + 1; j < len(ds); j++ {
				if sameSecond(ds[i], ds[j]) {
					return true
				}
			}
		}
		return false
	}
	steps := append([]Op{}, c.Ops...)
	steps = append(steps, Op{Op: "final"})
	for i, op := range steps {
		events = events[:0]
		op.ID = c.id(op.ID)
		sess := sessionName(op.S)
		key := fmt.Sprintf("%s/%d", sess, op.ID)
		if (op.Op == "ins" && op.Kind == "pubrec") || (op.Op == "ack" && op.Kind == "pubrel") {
			// exchanges started by the peer (a stored PUBREC waiting for PUBREL) live in the peer's
			// identifier space: the same number may be in use by an exchange started here
			key = fmt.Sprintf("%s/in/%d", sess, op.ID)
		}
		switch op.Op {
		case "ins":
			stored, expect, valid := mkStored(op.Kind, op.ID)
			if op.ID == 0 {
				valid = false
			}
			_, isLive := live[key]
			var before reg
			if isLive {
				before = *live[key]
			}
			err := register(key, sess, stored, expect, t0.Add(time.Duration(op.D)*time.Millisecond), op.Rearm)
			if len(events) != 0 {
				return fmt.Sprintf("step %d: Insert fired %d callback(s)", i, len(events)), nontrivial
			}
			switch {
			case !valid && err == nil:
				return fmt.Sprintf("step %d: Insert of %s id %d accepted, want an error", i, op.Kind, op.ID), nontrivial
			case !valid:
				// rejected, nothing registered (register() only records on success)
			case isLive && err == nil:
				return fmt.Sprintf("step %d: duplicate Insert of live key %s accepted", i, key), nontrivial
			case isLive:
				// the existing entry must be undisturbed: checked through its later behaviour
				// (type, deadline, callback are those of `before`).
				if *live[key] != before {
					return "harness bug: model entry changed by a rejected insert", nontrivial
				}
			case err != nil:
				return fmt.Sprintf("step %d: Insert of free key %s (%s) refused: %v", i, key, op.Kind, err), nontrivial
			}
		case "ack":
			pkt, typ, acker := mkAck(op.Kind, op.ID)
			r, isLive := live[key]
			if isLive && (sameSecondPair() || (acker && typ != r.expect)) {
				nontrivial = true
			}
			err := q.Ack(sess, pkt)
			switch {
			case !acker || !isLive || typ != r.expect:
				if err == nil {
					return fmt.Sprintf("step %d: Ack(%s, %s) returned nil, want an error (live=%v)", i, key, op.Kind, isLive), nontrivial
				}
				if len(events) != 0 {
					return fmt.Sprintf("step %d: Ack(%s, %s) must change nothing but fired %d callback(s) (first: expired=%v key=%s)", i, key, op.Kind, len(events), events[0].expired, keyOf(events[0])), nontrivial
				}
			default:
				if err != nil {
					return fmt.Sprintf("step %d: Ack(%s, %s) with the expected type failed: %v", i, key, op.Kind, err), nontrivial
				}
				if len(events) != 1 || events[0].reg != r || events[0].expired || events[0].stored != r.stored || events[0].received != pkt {
					return fmt.Sprintf("step %d: Ack(%s, %s): want exactly one callback(false, stored, received) of that entry, got %s", i, key, op.Kind, descr(events)), nontrivial
				}
				r.outcomes++
				delete(live, key)
			}
		case "align":
			if op.M <= 0 || ordinal[key] == 0 {
				continue
			}
			n := ((ordinal[key]-(count+1))%op.M + op.M) % op.M
			if n > 0 {
				nontrivial = true
			}
			for j := 0; j < n; j++ {
				fillerID = fillerID%60000 + 1
				st, _, _ := mkStored("pub1", fillerID)
				outcomes, wrong := 0, false
				if err := q.Insert("filler", st, t0.Add(time.Duration(op.D)*time.Millisecond), func(expired bool, _, _ packet.Packet) {
					outcomes++
					wrong = wrong || expired
				}); err != nil {
					return fmt.Sprintf("step %d: filler registration filler/%d refused: %v", i, fillerID, err), nontrivial
				}
				count++
				pk, _, _ := mkAck("puback", fillerID)
				if err := q.Ack("filler", pk); err != nil || outcomes != 1 || wrong {
					return fmt.Sprintf("step %d: filler exchange filler/%d acknowledged at once: err=%v, %d outcome(s), expired=%v", i, fillerID, err, outcomes, wrong), nontrivial
				}
			}
			if len(events) != 0 {
				return fmt.Sprintf("step %d: %d unrelated filler exchanges fired %d callback(s) of other entries (first: expired=%v key=%s)", i, n, len(events), events[0].expired, keyOf(events[0])), nontrivial
			}
		case "exp", "final":
			now := t0.Add(time.Duration(op.D) * time.Millisecond)
			if op.Op == "final" {
				finalSweep = true
				now = t0.Add(240 * time.Hour)
			}
			if sameSecondPair() {
				nontrivial = true
			}
			sweepNo++
			inSweep = sweepNo
			q.Expire(now)
			inSweep = 0
			fired := map[*reg]int{}
			for _, e := range events {
				if e.reg == nil {
					return fmt.Sprintf("step %d: re-registration of an expired key from its own callback was refused", i), nontrivial
				}
				if !e.expired || e.stored != e.reg.stored || e.received != nil {
					return fmt.Sprintf("step %d: sweep fired callback(expired=%v) with wrong arguments for %s", i, e.expired, e.reg.key), nontrivial
				}
				fired[e.reg]++
			}
			for r, n := range fired {
				if n > 1 {
					return fmt.Sprintf("step %d: sweep fired entry %s %d times", i, r.key, n), nontrivial
				}
				if r.outcomes > 0 {
					return fmt.Sprintf("step %d: sweep fired entry %s which was already resolved", i, r.key), nontrivial
				}
				if r.sweepNo != sweepNo && r.deadline.Sub(now) >= time.Second {
					return fmt.Sprintf("step %d: sweep at %v expired %s whose deadline %v is >= 1s in the future", i, now.Sub(t0), r.key, r.deadline.Sub(t0)), nontrivial
				}
				r.outcomes++
				if live[r.key] == r {
					delete(live, r.key)
				}
			}
			for _, r := range regs { // registration order: deterministic messages
				if live[r.key] != r {
					continue
				}
				if r.sweepNo == sweepNo {
					continue // registered by a callback of this very sweep
				}
				if now.Sub(r.deadline) >= time.Second {
					return fmt.Sprintf("step %d: sweep at %v left %s unexpired although its deadline %v passed >= 1s ago", i, now.Sub(t0), r.key, r.deadline.Sub(t0)), nontrivial
				}
			}
		default:
			return "bad op " + op.Op, false
		}
		for _, r := range regs {
			if r.outcomes > 1 {
				return fmt.Sprintf("step %d: entry %s resolved %d times", i, r.key, r.outcomes), nontrivial
			}
		}
	}
	for _, r := range regs {
		if r.outcomes != 1 {
			return fmt.Sprintf("end: entry %s (deadline %v) has %d outcomes after the final sweep, want exactly 1", r.key, r.deadline.Sub(t0), r.outcomes), nontrivial
		}
	}
	return "", nontrivial
}

func keyOf(e event) string {
	if e.reg == nil {
		return "?"
	}
	return e.reg.key
}

func descr(evs []event) string {
	s := fmt.Sprintf("%d callback(s):", len(evs))
	for _, e := range evs {
		s += fmt.Sprintf(" [%s expired=%v]", keyOf(e), e.expired)
	}
	return s
}

func check(t ev.TB, c Case, labels ...string) {
	msg, nt := run(c)
	ev.Case(nt, c, labels...)
	if msg != "" {
		ev.Fail(t, "queue-history", c, "%s", msg)
	}
}

var kinds = ev.Kinds{
	"queue-history": func(t ev.TB, raw json.RawMessage) {
		var c Case
		ev.Decode(t, raw, &c)
		check(t, c, "replay")
	},
	"list-history": func(t ev.TB, raw json.RawMessage) {
		var c ListCase
		ev.Decode(t, raw, &c)
		checkList(t, c, "replay")
	},
}

func TestReplayFile(t *testing.T) { ev.ReplayFile(t, kinds) }
func TestRegress(t *testing.T)    { ev.Regress(t, kinds, "testdata/regress") }

// deadline grid (ms): equal deadlines, same second / different ms, neighbouring seconds,
// both sides of the rounding boundary, past and future relative to the sweep grid.
var dGrid = []int64{-2500, -400, 0, 100, 400, 499, 500, 501, 900, 1000, 1400, 1500, 1600, 2000, 3000, 3400, 5000, 60000}
var nowGrid = []int64{-3000, -1000, 0, 450, 550, 1000, 1450, 1550, 2000, 2500, 3500, 4000, 4500, 6100, 61000, 62000}

func genOp(t *rapid.T) Op {
	switch x := rapid.IntRange(0, 9).Draw(t, "op"); {
	case x < 4:
		kind := rapid.SampledFrom([]string{"pub1", "pub1", "pub2", "pub2", "pubrec", "pubrel", "pub0", "conn"}).Draw(t, "kind")
		id := int32(rapid.IntRange(0, 4).Draw(t, "id"))
		if id == 0 && rapid.IntRange(0, 3).Draw(t, "zeroId") > 0 {
			id = 1
		}
		rearm := int64(-1)
		if rapid.IntRange(0, 2).Draw(t, "rearm") == 0 {
			rearm = rapid.SampledFrom([]int64{0, 300, 1000, 3000}).Draw(t, "rearmBy")
		}
		return Op{Op: "ins", S: rapid.SampledFrom([]int{0, 1, 2, 1, 2, 3, 4}).Draw(t, "s"), ID: id, Kind: kind, D: rapid.SampledFrom(dGrid).Draw(t, "d"), Rearm: rearm}
	case x < 7:
		return Op{Op: "ack", S: rapid.SampledFrom([]int{0, 1, 2, 1, 2, 3, 4}).Draw(t, "s"), ID: int32(rapid.IntRange(1, 4).Draw(t, "id")),
			Kind: rapid.SampledFrom([]string{"puback", "puback", "pubrec", "pubrec", "pubrel", "pubcomp", "conn"}).Draw(t, "kind")}
	default:
		return Op{Op: "exp", D: rapid.SampledFrom(nowGrid).Draw(t, "now")}
	}
}

// TestRandom: histories of 3–40 steps over sessions {0,1,2} × ids {0..4}.
func TestRandom(t *testing.T) {
	rapid.Check(t, func(t *rapid.T) {
		n := rapid.IntRange(3, 40).Draw(t, "n")
		c := Case{IDs: rapid.SampledFrom(idMaps).Draw(t, "ids")}
		for i := 0; i < n; i++ {
			c.Ops = append(c.Ops, genOp(t))
		}
		check(t, c)
	})
}

// TestLongHistories: the same histories with long stretches of unrelated exchanges in between,
// measured so that a key is registered again exactly 256·n or 65536·n registrations after its
// previous registration (op align): state the table carries across a long history.
func TestLongHistories(t *testing.T) {
	rapid.Check(t, func(t *rapid.T) {
		c := Case{IDs: rapid.SampledFrom(idMaps).Draw(t, "ids")}
		rounds := rapid.IntRange(1, 3).Draw(t, "rounds")
		for r := 0; r < rounds; r++ {
			s, id := rapid.IntRange(0, 2).Draw(t, "s"), int32(rapid.IntRange(1, 3).Draw(t, "id"))
			kind := rapid.SampledFrom([]string{"pub1", "pub2", "pubrel", "pubrec"}).Draw(t, "kind")
			ackKind := map[string]string{"pub1": "puback", "pub2": "pubrec", "pubrel": "pubcomp", "pubrec": "pubrel"}[kind]
			d1 := rapid.SampledFrom(dGrid).Draw(t, "d1")
			c.Ops = append(c.Ops, Op{Op: "ins", S: s, ID: id, Kind: kind, D: d1, Rearm: -1})
			for k := rapid.IntRange(0, 2).Draw(t, "between"); k > 0; k-- {
				c.Ops = append(c.Ops, genOp(t))
			}
			if rapid.IntRange(0, 3).Draw(t, "resolve") > 0 {
				c.Ops = append(c.Ops, Op{Op: "ack", S: s, ID: id, Kind: ackKind})
			} else {
				c.Ops = append(c.Ops, Op{Op: "exp", D: d1 + 1500})
			}
			for k := rapid.IntRange(0, 2).Draw(t, "between2"); k > 0; k-- {
				c.Ops = append(c.Ops, genOp(t))
			}
			m := rapid.SampledFrom([]int{256, 65536, 65536, 65536}).Draw(t, "modulus")
			c.Ops = append(c.Ops, Op{Op: "align", S: s, ID: id, Kind: kind, M: m, D: rapid.SampledFrom(dGrid).Draw(t, "fillerDeadline")})
			d2 := d1 + rapid.SampledFrom([]int64{0, 600, 2000, 60000}).Draw(t, "later")
			c.Ops = append(c.Ops, Op{Op: "ins", S: s, ID: id, Kind: kind, D: d2, Rearm: -1})
			for k := rapid.IntRange(1, 4).Draw(t, "after"); k > 0; k-- {
				c.Ops = append(c.Ops, genOp(t))
			}
			c.Ops = append(c.Ops, Op{Op: "exp", D: rapid.SampledFrom([]int64{d1 + 1100, d1 + 1600, d2 - 1100, d2 + 1600}).Draw(t, "sweep")})
			if rapid.IntRange(0, 1).Draw(t, "ackLate") == 0 {
				c.Ops = append(c.Ops, Op{Op: "ack", S: s, ID: id, Kind: ackKind})
			}
		}
		check(t, c, "long")
	})
}

// TestEnum: every history of up to L steps over 2 keys (same session, ids 1 and 2), 3 deadlines
// (two in the same second, one equal pair possible), 2 stored kinds, right/wrong ack types and
// 3 sweep times.
func TestEnum(t *testing.T) {
	L := ev.Scale(4, 5)
	si, sn := ev.Shard()
	var al []Op
	for _, id := range []int32{1, 2} {
		for _, d := range []int64{1000, 1400, 2600} {
			al = append(al, Op{Op: "ins", ID: id, Kind: "pub1", D: d, Rearm: -1})
		}
		al = append(al, Op{Op: "ins", ID: id, Kind: "pub2", D: 1000, Rearm: 0})
		al = append(al, Op{Op: "ack", ID: id, Kind: "puback"}, Op{Op: "ack", ID: id, Kind: "pubrec"})
	}
	for _, now := range []int64{1200, 2500, 4000} {
		al = append(al, Op{Op: "exp", D: now})
	}
	idx := 0
	for l := 1; l <= L; l++ {
		var rec func(prefix []Op)
		rec = func(prefix []Op) {
			if len(prefix) == l {
				idx++
				if idx%sn != si {
					return
				}
				c := Case{Ops: append([]Op{}, prefix...)}
				msg, nt := run(c)
				ev.CaseKey(nt, fmt.Sprint(prefix), func() interface{} { return c }, "enum")
				if msg != "" {
					ev.Fail(t, "queue-history", c, "%s", msg)
				}
				if l <= 3 {
					// the same history on two identifiers of the UTF-16 surrogate band and on 65533/65535
					for _, ids := range [][]int32{{55296, 56000}, {65533, 65535}} {
						ch := Case{Ops: c.Ops, IDs: ids}
						if msg, _ := run(ch); msg != "" {
							ev.Fail(t, "queue-history", ch, "%s", msg)
						}
					}
				}
				return
			}
			for _, o := range al {
				rec(append(prefix, o))
			}
		}
		rec(nil)
	}
	ev.Exhaustive(fmt.Sprintf("ack.Queue (shard %d/%d): all histories of length 1..%d over an alphabet of %d steps (2 ids x {register pub1 at 3 deadlines, register re-arming pub2, ack with 2 types}, 3 sweep times), each followed by a final sweep", si, sn, L, len(al)))
}

// sessionName: session 0 is "s0"; sessions 1 and 2 are two different identifiers with the same
// CRC-32 (and sessions 3 and 4, used by a few generated cases, with the same FNV-1a/32): a
// table keyed by a digest of the session identifier would mix them up.
var collidingSessions = func() [4]string {
	var out [4]string
	// identifiers that look like the broker's own (hexadecimal, pseudo-random): a CRC is linear, and
	// names that differ in a few decimal digits only never collide under it
	name := func(i int) string {
		d := sha256.Sum256([]byte(strconv.Itoa(i)))
		return hex.EncodeToString(d[:8])
	}
	for k, h := range []func([]byte) uint32{crc32.ChecksumIEEE, func(b []byte) uint32 { f := fnv.New32a(); f.Write(b); return f.Sum32() }} {
		seen := map[uint32]int{}
		for i := 0; i < 4000000; i++ {
			d := h([]byte(name(i)))
			if j, ok := seen[d]; ok {
				out[2*k], out[2*k+1] = name(j), name(i)
				break
			}
			seen[d] = i
		}
	}
	return out
}()

func sessionName(i int) string {
	if i >= 1 && i <= 4 && collidingSessions[i-1] != "" {
		return collidingSessions[i-1]
	}
	return fmt.Sprintf("s%d", i)
}
