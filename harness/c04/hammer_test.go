package c04

import (
	"encoding/json"
	"fmt"
	"runtime"
	"sync"
	"sync/atomic"
	"testing"
	"time"

	"github.com/vx-labs/mqtt-protocol/packet"
	"github.com/vx-labs/wasp/v4/wasp/ack"
	"verifharness/internal/ev"
)

func init() {
	kinds["queue-hammer"] = func(t ev.TB, raw json.RawMessage) {
		if tt, ok := t.(*testing.T); ok {
			TestHammerOneKey(tt)
			TestHammerFreshSeconds(tt)
			TestHammerBigSweep(tt)
			TestManyEntries(tt)
		}
	}
}

// TestHammerOneKey: 8 goroutines register (alternating expected types), acknowledge (right
// and wrong types) and sweep ONE key as fast as they can; afterwards every successful
// registration must have resolved exactly once. Contention on a single key is what the
// generated programs rarely reach.
func TestHammerOneKey(t *testing.T) {
	lost := 0
	rounds := ev.Scale(150, 1500)
	ev.Case(true, map[string]interface{}{"scenario": "8 goroutines x 300 operations on one (session, identifier)", "rounds": rounds}, "hammer")
	ev.Case(true, map[string]interface{}{"scenario": "hammer executions", "seed": ev.Seed()}, "hammer")
	ev.Count("hammer_rounds", int64(rounds))
	for round := 0; round < rounds; round++ {
		q := ack.NewQueue()
		var mu sync.Mutex
		var regs []*int32
		var wg sync.WaitGroup
		var final, early int32 // deadlines of 6 s lie beyond every sweep of the contended phase (at most 4 s)
		for g := 0; g < 8; g++ {
			wg.Add(1)
			go func(g int) {
				defer wg.Done()
				for i := 0; i < 300; i++ {
					switch (i + g) % 4 {
					case 0, 1:
						kind := "pub1"
						if (i/2+g)%2 == 0 {
							kind = "pub2"
						}
						st, _, _ := mkStored(kind, 1)
						c := new(int32)
						late := i%3 == 2
						if q.Insert("s", st, t0.Add(time.Duration(i%3)*3*time.Second), func(expired bool, _, _ packet.Packet) {
							atomic.AddInt32(c, 1)
							if expired && late && atomic.LoadInt32(&final) == 0 {
								atomic.AddInt32(&early, 1)
							}
						}) == nil {
							mu.Lock()
							regs = append(regs, c)
							mu.Unlock()
						}
					case 2:
						k := "puback"
						if i%8 < 4 {
							k = "pubrec"
						}
						p, _, _ := mkAck(k, 1)
						q.Ack("s", p)
					default:
						q.Expire(t0.Add(time.Duration(i%5) * time.Second))
					}
				}
			}(g)
		}
		wg.Wait()
		atomic.StoreInt32(&final, 1)
		q.Expire(t0.Add(time.Hour))
		if early > 0 {
			lost += int(early)
			t.Logf("round %d: %d registrations with a deadline of 6 s expired at a sweep of at most 4 s", round, early)
		}
		for _, c := range regs {
			if n := atomic.LoadInt32(c); n != 1 {
				lost++
				t.Logf("round %d: a registration fired %d times", round, n)
			}
		}
	}
	if lost > 0 {
		ev.Fail(t, "queue-hammer", map[string]interface{}{"rounds": rounds}, "%d registrations on the contended key were not resolved exactly once, or expired before their deadline", lost)
	}
}

// TestHammerFreshSeconds: the timeout list under the schedule the generated programs reach
// least — the first two entries of a deadline-second that has no bucket yet arrive from two
// goroutines at the same moment (released by a spinning barrier), with different exact
// deadlines inside that second; each goroutine then removes its own entry again (what an
// acknowledgement does) and after all rounds a sweep far in the future must report nothing:
// a removal that returned has removed. Then the same with the entries kept: the final sweep
// reports every one exactly once.
func TestHammerFreshSeconds(t *testing.T) {
	rounds := ev.Scale(100000, 400000)
	for _, impl := range []string{"pq", "skip"} {
		for _, keep := range []bool{false, true} {
			c := map[string]interface{}{"scenario": "racing first inserts of fresh deadline-seconds", "impl": impl, "rounds": rounds, "keep": keep}
			ev.Case(true, c, "hammer-fresh-seconds")
			ev.Count("hammer_rounds", int64(rounds))
			l := newList(impl)
			var count, gen int32
			wait := func() {
				g := atomic.LoadInt32(&gen)
				if atomic.AddInt32(&count, 1) == 2 {
					atomic.StoreInt32(&count, 0)
					atomic.AddInt32(&gen, 1)
					return
				}
				for i := 0; atomic.LoadInt32(&gen) == g; i++ {
					if i%64 == 63 {
						runtime.Gosched()
					}
				}
			}
			var wg sync.WaitGroup
			for g := 0; g < 2; g++ {
				wg.Add(1)
				go func(g int) {
					defer wg.Done()
					for r := 0; r < rounds; r++ {
						// the goroutine that tends to arrive second carries the earlier deadline in half of the rounds
						off := 100 * time.Millisecond
						if (g+r)%2 == 0 {
							off = 400 * time.Millisecond
						}
						d := t0.Add(time.Duration(r)*time.Second + off)
						key := fmt.Sprintf("g%d/%d", g, r)
						wait()
						l.Insert(key, d)
						if !keep {
							l.Delete(key, d)
						}
					}
				}(g)
			}
			wg.Wait()
			got := l.Expire(t0.Add(time.Duration(rounds+10) * time.Second))
			if !keep && len(got) != 0 {
				ev.Fail(t, "queue-hammer", c, "%s list: %d entries were reported by the final sweep although every one of them had been removed again (first: %v)", impl, len(got), got[0])
			}
			if keep {
				seen := map[string]int{}
				for _, v := range got {
					seen[v.(string)]++
				}
				for g := 0; g < 2; g++ {
					for r := 0; r < rounds; r++ {
						if n := seen[fmt.Sprintf("g%d/%d", g, r)]; n != 1 {
							ev.Fail(t, "queue-hammer", c, "%s list: entry g%d/%d was reported %d times by the final sweep, want exactly 1", impl, g, r, n)
						}
					}
				}
			}
		}
	}
}

// TestHammerBigSweep: one sweep finds hundreds or thousands of entries due while another
// goroutine acknowledges those very keys and registers them again with a deadline an hour
// away (what the broker does when an identifier is recycled). Whatever the interleaving, an
// old entry resolves exactly once, and a new entry is never expired by a sweep that ran
// long before its deadline.
func TestHammerBigSweep(t *testing.T) {
	rounds := ev.Scale(30, 300)
	for _, n := range []int{200, 300, 600, 2000} {
		c := map[string]interface{}{"scenario": "acknowledge and re-register the keys of a running big sweep", "due_entries": n, "rounds": rounds}
		ev.Case(true, c, "hammer-big-sweep")
		ev.Count("hammer_rounds", int64(rounds))
		early, unresolved, twice := 0, 0, 0
		for r := 0; r < rounds; r++ {
			q := ack.NewQueue()
			old := make([]int32, n+1)
			var final int32
			var earlyNew int32
			for k := 1; k <= n; k++ {
				k := k
				st, _, _ := mkStored("pub1", int32(k))
				q.Insert("s", st, t0.Add(time.Second), func(expired bool, _, _ packet.Packet) {
					atomic.AddInt32(&old[k], 1)
					for i := 0; i < 50; i++ { // a little work, as a retransmission or an identifier release would be
						runtime.Gosched()
					}
				})
			}
			var wg sync.WaitGroup
			start := make(chan struct{})
			wg.Add(2)
			go func() {
				defer wg.Done()
				<-start
				q.Expire(t0.Add(10 * time.Second))
			}()
			go func() {
				defer wg.Done()
				<-start
				for k := n; k >= 1; k-- {
					p, _, _ := mkAck("puback", int32(k))
					q.Ack("s", p)
					st, _, _ := mkStored("pub1", int32(k))
					q.Insert("s", st, t0.Add(time.Hour), func(expired bool, _, _ packet.Packet) {
						if expired && atomic.LoadInt32(&final) == 0 {
							atomic.AddInt32(&earlyNew, 1)
						}
					})
				}
			}()
			close(start)
			wg.Wait()
			atomic.StoreInt32(&final, 1)
			q.Expire(t0.Add(2 * time.Hour))
			early += int(earlyNew)
			for k := 1; k <= n; k++ {
				switch v := atomic.LoadInt32(&old[k]); {
				case v == 0:
					unresolved++
				case v > 1:
					twice++
				}
			}
		}
		if early+unresolved+twice > 0 {
			ev.Fail(t, "queue-hammer", c, "%d due entries per sweep: %d new registrations (deadline one hour away) were expired by the sweep at 10 s; %d old entries never resolved, %d resolved twice", n, early, unresolved, twice)
		}
	}
}

// TestManyEntries: the table has no bound of its own — the identifier range per session is the
// only one. 200 000 exchanges over several sessions (more than 65536 in all) are registered,
// a third acknowledged, and the rest swept: every registration is accepted and resolves
// exactly once, and an entry that is re-registered from its expiry callback while the table
// is that full is accepted too.
func TestManyEntries(t *testing.T) {
	c := map[string]interface{}{"scenario": "200000 pending exchanges over 4 sessions", "entries": 200000}
	ev.Case(true, c, "many-entries")
	q := ack.NewQueue()
	const perSession = 50000
	fired := make([]int32, 4*perSession)
	rearmed, rearmRefused := int32(0), int32(0)
	for s := 0; s < 4; s++ {
		for id := 1; id <= perSession; id++ {
			k := s*perSession + id - 1
			st, _, _ := mkStored("pub1", int32(id))
			sess := fmt.Sprintf("s%d", s)
			var cb func(expired bool, _, _ packet.Packet)
			cb = func(expired bool, _, _ packet.Packet) {
				atomic.AddInt32(&fired[k], 1)
				if expired && k%1000 == 0 && atomic.LoadInt32(&fired[k]) == 1 {
					// a retransmission: the exchange goes on under the same key
					if err := q.Insert(sess, st, t0.Add(10*time.Hour), func(bool, packet.Packet, packet.Packet) {}); err != nil {
						atomic.AddInt32(&rearmRefused, 1)
					} else {
						atomic.AddInt32(&rearmed, 1)
					}
				}
			}
			// deadlines spread over 3000 different seconds (one bucket of the timeout list each)
			if err := q.Insert(sess, st, t0.Add(time.Duration(k%3000)*time.Second), cb); err != nil {
				ev.Fail(t, "queue-hammer", c, "registration %d (session %s, identifier %d, nothing else uses that key) was refused: %v", k+1, sess, id, err)
				return
			}
		}
	}
	for s := 0; s < 4; s++ {
		for id := 3; id <= perSession; id += 3 {
			p, _, _ := mkAck("puback", int32(id))
			if err := q.Ack(fmt.Sprintf("s%d", s), p); err != nil {
				ev.Fail(t, "queue-hammer", c, "acknowledgement of pending exchange s%d/%d failed: %v", s, id, err)
				return
			}
		}
	}
	q.Expire(t0.Add(2 * time.Hour))
	for k, n := range fired {
		if n != 1 {
			ev.Fail(t, "queue-hammer", c, "exchange %d resolved %d times, want exactly 1", k, n)
			return
		}
	}
	if rearmRefused > 0 {
		ev.Fail(t, "queue-hammer", c, "%d of %d re-registrations from an expiry callback were refused", rearmRefused, rearmed+rearmRefused)
	}
}
