package c04

import (
	"fmt"
	"sort"
	"testing"
	"time"

	"github.com/vx-labs/wasp/v4/wasp/expiration"
	"pgregory.net/rapid"
	"verifharness/internal/ev"
)

// ListOp: ins (id, deadline t0+D ms) — ids are unique among live items, as the in-flight
// table guarantees; del (id, D) — D is the item's exact deadline when it is live, anything
// when it is not (must then change nothing); upd (id, D → D2); exp (now = t0+D).
type ListOp struct {
	Op string `json:"op"`
	ID int    `json:"id,omitempty"`
	D  int64  `json:"d"`
	D2 int64  `json:"d2,omitempty"`
}

type ListCase struct {
	Impl string   `json:"impl"` // "pq" (production, expiration.NewList) | "skip" (alternative implementation)
	Ops  []ListOp `json:"ops"`
}

func newList(impl string) expiration.List {
	if impl == "skip" {
		return expiration.VerifNewSkipList()
	}
	return expiration.NewList()
}

func at(ms int64) time.Time { return t0.Add(time.Duration(ms) * time.Millisecond) }

func runList(c ListCase) (msg string, nontrivial bool) {
	defer func() {
		if r := recover(); r != nil {
			msg = fmt.Sprintf("panic: %v", r)
		}
	}()
	l := newList(c.Impl)
	live := map[int]int64{}
	sameSec := func() bool {
		seen := map[int64]bool{}
		for _, d := range live {
			s := at(d).Round(time.Second).Unix()
			if seen[s] {
				return true
			}
			seen[s] = true
		}
		return false
	}
	sweep := func(i int, now time.Time, final bool) string {
		got := l.Expire(now)
		seen := map[int]bool{}
		for _, v := range got {
			id, ok := v.(int)
			if !ok {
				return fmt.Sprintf("step %d: Expire returned a foreign value %v", i, v)
			}
			if seen[id] {
				return fmt.Sprintf("step %d: Expire returned id %d twice", i, id)
			}
			seen[id] = true
			d, isLive := live[id]
			if !isLive {
				return fmt.Sprintf("step %d: Expire returned id %d which is not registered (deleted or already expired)", i, id)
			}
			if at(d).Sub(now) >= time.Second {
				return fmt.Sprintf("step %d: Expire(now=%v) returned id %d whose deadline %v is >= 1s in the future", i, now.Sub(t0), id, time.Duration(d)*time.Millisecond)
			}
			delete(live, id)
		}
		for _, id := range sortedIDs(live) {
			d := live[id]
			if now.Sub(at(d)) >= time.Second {
				return fmt.Sprintf("step %d: Expire(now=%v) did not return id %d whose deadline %v passed >= 1s ago", i, now.Sub(t0), id, time.Duration(d)*time.Millisecond)
			}
		}
		return ""
	}
	for i, op := range c.Ops {
		switch op.Op {
		case "ins":
			if _, ok := live[op.ID]; ok {
				continue // precondition of the real caller: keys are unique (hash PutIfMissing guards Insert)
			}
			l.Insert(op.ID, at(op.D))
			live[op.ID] = op.D
		case "del":
			if sameSec() {
				nontrivial = true
			}
			if d, ok := live[op.ID]; ok {
				if !l.Delete(op.ID, at(d)) {
					return fmt.Sprintf("step %d: Delete(%d, its deadline) returned false for a live item", i, op.ID), nontrivial
				}
				delete(live, op.ID)
			} else {
				l.Delete(op.ID, at(op.D)) // not registered: must change nothing (checked by the sweeps)
			}
		case "upd":
			if d, ok := live[op.ID]; ok {
				l.Update(op.ID, at(d), at(op.D2))
				live[op.ID] = op.D2
			}
		case "exp":
			if sameSec() {
				nontrivial = true
			}
			if m := sweep(i, at(op.D), false); m != "" {
				return m, nontrivial
			}
		default:
			return "bad op " + op.Op, false
		}
	}
	if m := sweep(len(c.Ops), t0.Add(240*time.Hour), true); m != "" {
		return m, nontrivial
	}
	if len(live) != 0 {
		ids := []int{}
		for id := range live {
			ids = append(ids, id)
		}
		sort.Ints(ids)
		return fmt.Sprintf("final sweep left ids %v registered", ids), nontrivial
	}
	return "", nontrivial
}

func sortedIDs(m map[int]int64) []int {
	ids := make([]int, 0, len(m))
	for id := range m {
		ids = append(ids, id)
	}
	sort.Ints(ids)
	return ids
}

func checkList(t ev.TB, c ListCase, labels ...string) {
	msg, nt := runList(c)
	ev.Case(nt, c, append(labels, "list:"+c.Impl)...)
	if msg != "" {
		ev.Fail(t, "list-history", c, "%s", msg)
	}
}

func genListCase(t *rapid.T, impl string, withUpdate bool) ListCase {
	n := rapid.IntRange(2, 30).Draw(t, "n")
	c := ListCase{Impl: impl}
	for i := 0; i < n; i++ {
		hi := 9
		if withUpdate {
			hi = 10
		}
		switch x := rapid.IntRange(0, hi).Draw(t, "op"); {
		case x < 4:
			c.Ops = append(c.Ops, ListOp{Op: "ins", ID: rapid.IntRange(1, 6).Draw(t, "id"), D: rapid.SampledFrom(dGrid).Draw(t, "d")})
		case x < 7:
			c.Ops = append(c.Ops, ListOp{Op: "del", ID: rapid.IntRange(1, 6).Draw(t, "id"), D: rapid.SampledFrom(dGrid).Draw(t, "d")})
		case x < 10:
			c.Ops = append(c.Ops, ListOp{Op: "exp", D: rapid.SampledFrom(nowGrid).Draw(t, "now")})
		default:
			c.Ops = append(c.Ops, ListOp{Op: "upd", ID: rapid.IntRange(1, 6).Draw(t, "id"), D2: rapid.SampledFrom(dGrid).Draw(t, "d2")})
		}
	}
	return c
}

// TestListRandom: the production timeout list against a table of (id, deadline).
func TestListRandom(t *testing.T) {
	rapid.Check(t, func(t *rapid.T) {
		checkList(t, genListCase(t, "pq", rapid.IntRange(0, 3).Draw(t, "upd") == 0))
	})
}

// TestListSkipRandom: the alternative skip-list implementation of the same interface,
// against the same table model (Insert / Delete / Expire only: the operations the
// in-flight table uses).
func TestListSkipRandom(t *testing.T) {
	rapid.Check(t, func(t *rapid.T) {
		checkList(t, genListCase(t, "skip", false))
	})
}
