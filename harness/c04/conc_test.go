package c04

import (
	"encoding/json"
	"fmt"
	"runtime"
	"sync"
	"sync/atomic"
	"testing"
	"time"

	"github.com/vx-labs/mqtt-protocol/packet"
	"github.com/vx-labs/wasp/v4/wasp/ack"
	"pgregory.net/rapid"
	"verifharness/internal/ev"
)

// ConcCase: Progs[g] is the op list of goroutine g; all run concurrently on one queue.
// Sessions: goroutine g owns session g+10 (disjoint keys); session 0 is shared by all.
type ConcCase struct {
	Progs  [][]Op `json:"progs"`
	Procs  int    `json:"gomaxprocs"`
	Yields int    `json:"yield_every"` // runtime.Gosched() every n-th op (0 = never)
}

type creg struct {
	key      string
	fired    int32
	firedAck int32
}

// runConc: invariants that hold for every schedule —
//   - no registration's callback runs twice; after the final sweep each ran exactly once;
//   - the number of Acks that returned nil equals the number of callback(expired=false);
//   - no panic (the race detector watches the rest when built with -race).
func runConc(c ConcCase) (msg string) {
	old := runtime.GOMAXPROCS(c.Procs)
	defer runtime.GOMAXPROCS(old)
	q := ack.NewQueue()
	var mu sync.Mutex
	var regs []*creg
	var okAcks, ackCallbacks int64
	var panicked atomic.Value
	var wg sync.WaitGroup
	for g, prog := range c.Progs {
		wg.Add(1)
		go func(g int, prog []Op) {
			defer wg.Done()
			defer func() {
				if r := recover(); r != nil {
					panicked.Store(fmt.Sprintf("goroutine %d: panic: %v", g, r))
				}
			}()
			// mine: this goroutine's view of the keys of its private session (nobody else inserts or
			// acknowledges there; sweeps of other goroutines may expire them at any time)
			mine := map[string]*creg{}
			for i, op := range prog {
				if c.Yields > 0 && i%c.Yields == 0 {
					runtime.Gosched()
				}
				s := op.S
				if s != 0 {
					s = g + 10
				}
				sess := fmt.Sprintf("s%d", s)
				if s != 0 && g < 4 {
					// the private sessions of the first goroutines are pairs of identifiers with the
					// same CRC-32 / FNV-1a digest: distinct keys all the same
					sess = sessionName(g + 1)
				}
				switch op.Op {
				case "ins":
					stored, _, _ := mkStored(op.Kind, op.ID)
					r := &creg{key: fmt.Sprintf("%s/%d", sess, op.ID)}
					pk := fmt.Sprintf("%s/%v/%d", sess, op.Kind == "pubrec", op.ID)
					free := mine[pk] == nil || atomic.LoadInt32(&mine[pk].fired) > 0
					err := q.Insert(sess, stored, t0.Add(time.Duration(op.D)*time.Millisecond), func(expired bool, st, rcv packet.Packet) {
						atomic.AddInt32(&r.fired, 1)
						if !expired {
							atomic.AddInt32(&r.firedAck, 1)
							atomic.AddInt64(&ackCallbacks, 1)
						}
					})
					if err == nil {
						mu.Lock()
						regs = append(regs, r)
						mu.Unlock()
					}
					if s != 0 {
						if err != nil && free {
							panicked.Store(fmt.Sprintf("goroutine %d: registration of %s in its private session %q was refused (%v) although nothing is pending under that key: operations on distinct keys interfere", g, pk, sess, err))
							return
						}
						if err == nil {
							mine[pk] = r
						}
					}
				case "ack":
					pkt, _, _ := mkAck(op.Kind, op.ID)
					if q.Ack(sess, pkt) == nil {
						atomic.AddInt64(&okAcks, 1)
						pk := fmt.Sprintf("%s/%v/%d", sess, op.Kind == "pubrel", op.ID)
						if r := mine[pk]; s != 0 && (r == nil || atomic.LoadInt32(&r.firedAck) != 1) {
							panicked.Store(fmt.Sprintf("goroutine %d: acknowledgement %s for %s in its private session %q succeeded, but it did not resolve this goroutine's own registration of that key (it resolved somebody else's entry)", g, op.Kind, pk, sess))
							return
						}
					}
				case "exp":
					q.Expire(t0.Add(time.Duration(op.D) * time.Millisecond))
				}
			}
		}(g, prog)
	}
	wg.Wait()
	if p := panicked.Load(); p != nil {
		return p.(string)
	}
	q.Expire(t0.Add(240 * time.Hour))
	for _, r := range regs {
		if n := atomic.LoadInt32(&r.fired); n != 1 {
			return fmt.Sprintf("entry %s: callback ran %d times after the final sweep, want exactly 1", r.key, n)
		}
	}
	if okAcks != ackCallbacks {
		return fmt.Sprintf("%d Acks succeeded but %d callbacks(expired=false) ran", okAcks, ackCallbacks)
	}
	return ""
}

func genConc(t *rapid.T) ConcCase {
	p := rapid.IntRange(2, 8).Draw(t, "goroutines")
	c := ConcCase{Procs: rapid.SampledFrom([]int{2, 4, 16}).Draw(t, "procs"), Yields: rapid.SampledFrom([]int{0, 1, 3}).Draw(t, "yields")}
	for g := 0; g < p; g++ {
		n := rapid.IntRange(10, 80).Draw(t, "n")
		var prog []Op
		for i := 0; i < n; i++ {
			op := genOp(t)
			if op.Op == "ins" {
				op.Rearm = -1
				if op.Kind == "pub0" || op.Kind == "conn" || op.ID == 0 {
					op.Kind, op.ID = "pub1", 1
				}
			}
			if rapid.Bool().Draw(t, "shared") {
				op.S = 0
			} else {
				op.S = 1
			}
			prog = append(prog, op)
		}
		c.Progs = append(c.Progs, prog)
	}
	return c
}

func checkConc(t ev.TB, c ConcCase, runs int) {
	ev.WriteCurrent("queue-concurrent", c)
	shared := false
	for _, p := range c.Progs {
		for _, op := range p {
			if op.S == 0 && op.Op != "exp" {
				shared = true
			}
		}
	}
	ev.Case(shared && len(c.Progs) >= 2, c, "concurrent")
	for i := 0; i < runs; i++ {
		if msg := runConc(c); msg != "" {
			ev.Fail(t, "queue-concurrent", c, "run %d: %s", i, msg)
		}
	}
	ev.Count("concurrent_executions", int64(runs))
}

func init() {
	kinds["queue-concurrent"] = func(t ev.TB, raw json.RawMessage) {
		var c ConcCase
		ev.Decode(t, raw, &c)
		checkConc(t, c, 50)
	}
}

// TestConcurrent (built with -race by the driver): generated concurrent programs, each
// executed several times.
func TestConcurrent(t *testing.T) {
	runs := ev.Scale(3, 10)
	rapid.Check(t, func(t *rapid.T) { checkConc(t, genConc(t), runs) })
}
