package c04

// Overlapping sweeps.
//
// A sweep S1 for the instant t has taken its due entries and is running their callbacks (one of
// them is held by the harness). Meanwhile an entry B is registered whose deadline already lies
// at least a second before t', and a second sweep S2 for t' (t' = t, t + 1 s, t - 1 s … - every
// relation to t) is called from another goroutine or from inside the held callback. S2 is the
// first sweep after B's deadline that began after B was registered, so when S2 returns B has
// expired, once; acknowledging B afterwards is refused. Then S1 is let go: every entry has been
// resolved exactly once. All combinations of the parameters below are enumerated.

import (
	"encoding/json"
	"fmt"
	"sync"
	"testing"
	"time"

	"github.com/vx-labs/mqtt-protocol/packet"
	"github.com/vx-labs/wasp/v4/wasp/ack"
	"verifharness/internal/ev"
)

type OverlapCase struct {
	First      int  `json:"first"`       // entries due in S1 (1..3)
	Held       int  `json:"held"`        // index of the entry whose callback is held
	S2OffsetMs int  `json:"s2_offset_ms"` // t' - t
	BBeforeMs  int  `json:"b_before_ms"`  // t' - B's deadline (>= 1000)
	FromInside bool `json:"from_inside"` // S2 is called from inside the held callback
	SameSess   bool `json:"same_session"`
}

func runOverlap(c OverlapCase) string {
	q := ack.NewQueue()
	t := t0.Add(100 * time.Second)
	t2 := t.Add(time.Duration(c.S2OffsetMs) * time.Millisecond)
	var mu sync.Mutex
	fired := map[int32][]bool{}
	note := func(id int32, expired bool) {
		mu.Lock()
		fired[id] = append(fired[id], expired)
		mu.Unlock()
	}
	entered := make(chan struct{})
	release := make(chan struct{})
	s2done := make(chan string, 1)
	sessB := "s"
	if !c.SameSess {
		sessB = "other"
	}
	doS2 := func() string {
		if err := q.Insert(sessB, &packet.Publish{Header: &packet.Header{Qos: 1}, MessageId: 500}, t2.Add(-time.Duration(c.BBeforeMs)*time.Millisecond), func(expired bool, _, _ packet.Packet) { note(500, expired) }); err != nil {
			return "registration of B refused: " + err.Error()
		}
		q.Expire(t2)
		mu.Lock()
		f := append([]bool{}, fired[500]...)
		mu.Unlock()
		if len(f) != 1 || !f[0] {
			return fmt.Sprintf("B (deadline %d ms before the sweep) after the first sweep that followed its registration: outcomes %v, want [expired]", c.BBeforeMs, f)
		}
		if err := q.Ack(sessB, &packet.PubAck{Header: &packet.Header{}, MessageId: 500}); err == nil {
			return "a PUBACK for B was accepted after the sweep that had to expire it"
		}
		return ""
	}
	for i := 0; i < c.First; i++ {
		i := i
		id := int32(10 + i)
		err := q.Insert("s", &packet.Publish{Header: &packet.Header{Qos: 1}, MessageId: id}, t.Add(-time.Duration(2+i)*time.Second), func(expired bool, _, _ packet.Packet) {
			note(id, expired)
			if i == c.Held {
				if c.FromInside {
					s2done <- doS2()
					return
				}
				close(entered)
				<-release
			}
		})
		if err != nil {
			return "registration refused: " + err.Error()
		}
	}
	s1done := make(chan struct{})
	go func() { q.Expire(t); close(s1done) }()
	var msg string
	if c.FromInside {
		select {
		case msg = <-s2done:
		case <-time.After(20 * time.Second):
			return "a sweep called from inside an expiry callback did not return within 20 s"
		}
	} else {
		select {
		case <-entered:
		case <-time.After(20 * time.Second):
			return "the held callback was never run"
		}
		go func() { s2done <- doS2() }()
		select {
		case msg = <-s2done:
		case <-time.After(20 * time.Second):
			msg = "a sweep overlapping another sweep's callbacks did not return within 20 s"
		}
		close(release)
	}
	select {
	case <-s1done:
	case <-time.After(20 * time.Second):
		return "the first sweep did not return"
	}
	if msg != "" {
		return msg
	}
	q.Expire(t.Add(time.Hour))
	mu.Lock()
	defer mu.Unlock()
	for i := 0; i < c.First; i++ {
		if f := fired[int32(10+i)]; len(f) != 1 || !f[0] {
			return fmt.Sprintf("entry %d of the first sweep: outcomes %v, want [expired]", i, f)
		}
	}
	if f := fired[500]; len(f) != 1 {
		return fmt.Sprintf("B resolved %d times", len(f))
	}
	return ""
}

func checkOverlap(t ev.TB, c OverlapCase) {
	msg := runOverlap(c)
	ev.Case(true, c, "overlapping-sweeps")
	if msg != "" {
		ev.Fail(t, "overlapping-sweeps", c, "%s", msg)
	}
}

func init() {
	kinds["overlapping-sweeps"] = func(t ev.TB, raw json.RawMessage) {
		var c OverlapCase
		ev.Decode(t, raw, &c)
		checkOverlap(t, c)
	}
}

func TestOverlappingSweeps(t *testing.T) {
	n := 0
	for first := 1; first <= 3; first++ {
		for held := 0; held < first; held++ {
			for _, off := range []int{0, 0, 1, 500, 1000, 3000, -1, -500, -1000} {
				for _, before := range []int{1000, 1500, 2000, 60000} {
					for _, inside := range []bool{false, true} {
						for _, same := range []bool{true, false} {
							checkOverlap(t, OverlapCase{first, held, off, before, inside, same})
							n++
						}
					}
				}
			}
		}
	}
	ev.Exhaustive(fmt.Sprintf("%d overlap scenarios: 1-3 entries in the running sweep x which callback is held x second sweep at t, t+1 ms … t+3 s, t-1 ms … t-1 s x B's deadline 1 s … 60 s before it x called from another goroutine / from inside the callback x same / other session", n))
}
