// C02 — an acknowledged publish is never lost before reaching connected subscribers.
//
// One complete in-process broker node on a (possibly pre-filled) message log; scripted
// publishers and subscribers on fake connections; the oracle looks at what the
// publishers got acknowledged and at the PUBLISH packets the subscribers read.
package c02

import (
	"encoding/binary"
	"encoding/json"
	"fmt"
	"os"
	"path/filepath"
	"strings"
	"testing"
	"time"

	"github.com/vx-labs/mqtt-protocol/packet"
	"pgregory.net/rapid"
	"verifharness/internal/ev"
	"verifharness/internal/ref"
	"verifharness/internal/sim"
)

func TestMain(m *testing.M) { ev.Main(m, "C02") }

type Sub struct {
	Filter string `json:"filter"`
	QoS    byte   `json:"qos"`
}

type Msg struct {
	Pub   int    `json:"pub"`
	Topic string `json:"topic"`
	QoS   byte   `json:"qos"`
	Size  int    `json:"size"` // payload size; 0 = empty payload
	// Dup: the DUP flag is set (a client resending after a reconnect; the broker has no memory
	// of the first copy, so this copy is the message). Retain: the RETAIN flag is set (the
	// message is additionally kept for later subscribers; live delivery is unchanged).
	Dup    bool `json:"dup,omitempty"`
	Retain bool `json:"retain,omitempty"`
}

type Case struct {
	Prefill     int   `json:"prefill"`      // log entries written before the node starts
	StateOffset int   `json:"state_offset"` // consumer offset file: -1 absent, else that value (≤ prefill-1)
	Subs        []Sub `json:"subs"`
	Pubs        int   `json:"pubs"`
	Msgs        []Msg `json:"msgs"`
	Burst       int   `json:"burst"` // settle after every Burst publishes (0 = only at the end)
}

func payloadFor(i, size int) string {
	if size == 0 {
		return ""
	}
	p := fmt.Sprintf("m%d-", i)
	if len(p) < size {
		p += strings.Repeat("x", size-len(p))
	}
	return p
}

type failure struct {
	msg          string
	inconclusive bool
}

func run(c Case) (f *failure, nontrivial bool) {
	cl, err := sim.NewCluster()
	if err != nil {
		return &failure{err.Error(), true}, false
	}
	defer cl.Close()
	dir, err := os.MkdirTemp(cl.TmpRoot, "n")
	if err != nil {
		return &failure{err.Error(), true}, false
	}
	var pre []*packet.Publish
	for i := 0; i < c.Prefill; i++ {
		pre = append(pre, &packet.Publish{Header: &packet.Header{}, Topic: []byte("_default/pre/" + fmt.Sprint(i)), Payload: []byte(fmt.Sprintf("pre-%d", i))})
	}
	if c.StateOffset >= 0 {
		b := make([]byte, 8)
		binary.BigEndian.PutUint64(b, uint64(c.StateOffset))
		if err := os.WriteFile(filepath.Join(dir, "publish_distributor.state"), b, 0650); err != nil {
			return &failure{err.Error(), true}, false
		}
	}
	n, err := cl.AddNode(sim.NodeOpts{Dir: dir, Prefill: pre})
	if err != nil {
		return &failure{"node start: " + err.Error(), true}, false
	}
	settle := func() *failure {
		if err := cl.Settle(); err != nil {
			return &failure{err.Error(), true}
		}
		return nil
	}
	var subs, pubs []*sim.Client
	for i, s := range c.Subs {
		k := cl.NewClient(fmt.Sprintf("sub%d", i))
		k.AttachTo(n)
		k.Send(sim.EncConnect(sim.ConnectOpts{ClientID: k.Name, KeepAlive: 600}))
		k.Send(sim.EncSubscribe(1, []string{s.Filter}, []byte{s.QoS}))
		subs = append(subs, k)
	}
	for i := 0; i < c.Pubs; i++ {
		k := cl.NewClient(fmt.Sprintf("pub%d", i))
		k.AttachTo(n)
		k.Send(sim.EncConnect(sim.ConnectOpts{ClientID: k.Name, KeepAlive: 600}))
		pubs = append(pubs, k)
	}
	if f := settle(); f != nil {
		return f, false
	}
	for _, k := range append(append([]*sim.Client{}, subs...), pubs...) {
		if !k.Accepted {
			return &failure{fmt.Sprintf("%s: CONNECT not accepted: %v", k.Name, k.Rx), false}, false
		}
	}
	for i, k := range subs {
		if !k.Has(sim.SUBACK, 1) {
			return &failure{fmt.Sprintf("sub%d: no SUBACK", i), false}, false
		}
	}
	first := uint64(c.Prefill)
	last := first + uint64(len(c.Msgs))
	for _, b := range []uint64{1, 10, 500, 1000, 1500, 2000, 3000} {
		if first < b && last >= b || first == 0 {
			nontrivial = true
		}
	}
	if len(c.Subs) >= 2 {
		nontrivial = true
	}
	ids := make([]uint16, len(c.Msgs))
	for i, m := range c.Msgs {
		ids[i] = uint16(20000 + i%40000)
		pubs[m.Pub].Send(sim.EncPublish(m.Topic, []byte(payloadFor(i, m.Size)), m.QoS, m.Retain, m.Dup, ids[i]))
		if c.Burst > 0 && (i+1)%c.Burst == 0 {
			if f := settle(); f != nil {
				return f, nontrivial
			}
		}
	}
	if f := settle(); f != nil {
		return f, nontrivial
	}
	// ---- oracle
	for _, k := range append(append([]*sim.Client{}, subs...), pubs...) {
		if k.ParseErr != nil {
			return &failure{k.ParseErr.Error(), false}, nontrivial
		}
		if st := k.Conn.State(); st.BrokerClosed {
			return &failure{fmt.Sprintf("%s: the broker closed a well-behaved connection", k.Name), false}, nontrivial
		}
	}
	if m := n.Log.ReadBackMismatch(); m != "" {
		return &failure{"log read-back: " + m, false}, nontrivial
	}
	known := map[string]int{} // topic+payload -> message index
	for i, m := range c.Msgs {
		known[m.Topic+"\x00"+payloadFor(i, m.Size)] = i
	}
	for si, k := range subs {
		got := map[int]int{}
		for _, p := range k.Publishes() {
			if strings.HasPrefix(p.Topic, "pre/") {
				// a replayed pre-filled entry (restart replays the last processed one): allowed only if it matches
				if !ref.MatchS(c.Subs[si].Filter, p.Topic) {
					return &failure{fmt.Sprintf("sub%d (filter %q) received %v which does not match", si, c.Subs[si].Filter, p), false}, nontrivial
				}
				continue
			}
			i, ok := known[p.Topic+"\x00"+p.Payload]
			if !ok {
				return &failure{fmt.Sprintf("sub%d received %.80v which nobody published (topic or payload altered)", si, p), false}, nontrivial
			}
			if !ref.MatchS(c.Subs[si].Filter, c.Msgs[i].Topic) {
				return &failure{fmt.Sprintf("sub%d (filter %q) received message %d on topic %q which does not match", si, c.Subs[si].Filter, i, c.Msgs[i].Topic), false}, nontrivial
			}
			got[i]++
		}
		for i, m := range c.Msgs {
			acked := (m.QoS == 1 && pubs[m.Pub].Has(sim.PUBACK, ids[i])) || (m.QoS == 2 && pubs[m.Pub].Has(sim.PUBCOMP, ids[i]))
			if acked && ref.MatchS(c.Subs[si].Filter, m.Topic) && got[i] == 0 {
				return &failure{fmt.Sprintf("message %d (topic %q, qos %d, %d bytes, log offset about %d) was acknowledged to pub%d but never reached sub%d (filter %q)", i, m.Topic, m.QoS, m.Size, c.Prefill+i, m.Pub, si, c.Subs[si].Filter), false}, nontrivial
			}
		}
	}
	// completeness of the publisher side on a healthy node: every QoS>0 publish is acknowledged
	for i, m := range c.Msgs {
		if m.QoS == 1 && !pubs[m.Pub].Has(sim.PUBACK, ids[i]) {
			return &failure{fmt.Sprintf("message %d (qos 1): no PUBACK although nothing failed", i), false}, nontrivial
		}
		if m.QoS == 2 && !pubs[m.Pub].Has(sim.PUBCOMP, ids[i]) {
			return &failure{fmt.Sprintf("message %d (qos 2): no PUBCOMP although nothing failed", i), false}, nontrivial
		}
	}
	return nil, nontrivial
}

func check(t ev.TB, c Case, labels ...string) {
	ev.WriteCurrent("publish-pipeline", c)
	f, nt := run(c)
	if f != nil && !f.inconclusive {
		// confirm by re-execution: a verdict must not hinge on one unlucky schedule
		again := 0
		for i := 0; i < 2 && again == 0; i++ {
			if f2, _ := run(c); f2 != nil && !f2.inconclusive {
				again++
			}
		}
		if again == 0 {
			ev.Count("unconfirmed_failures", 1)
			f = nil
		}
	}
	switch {
	case c.Prefill == 0:
		labels = append(labels, "empty-log")
	case c.Prefill < 490:
		labels = append(labels, "prefill<490")
	default:
		labels = append(labels, "prefill>=490")
	}
	if c.Prefill+len(c.Msgs) > 2000 {
		labels = append(labels, "crosses-truncation")
	}
	ev.Case(nt, c, labels...)
	if f != nil && f.inconclusive {
		ev.Inconclusive(t, f.msg)
		return
	}
	if f != nil {
		ev.Fail(t, "publish-pipeline", c, "%s", f.msg)
	}
}

var kinds = ev.Kinds{"publish-pipeline": func(t ev.TB, raw json.RawMessage) {
	var c Case
	ev.Decode(t, raw, &c)
	check(t, c, "replay")
}}

func TestReplayFile(t *testing.T) { ev.ReplayFile(t, kinds) }
func TestRegress(t *testing.T)    { ev.Regress(t, kinds, "testdata/regress") }

var topicsPool = []string{"a", "a/b", "a/b/c", "b", "a/", "c/d"}
var filtersPool = []string{"#", "a/#", "a/+", "a", "+/b", "b", "a/b/c", "z"}

func genCase(t *rapid.T, maxMsgs int) Case {
	c := Case{StateOffset: -1}
	switch rapid.IntRange(0, 9).Draw(t, "prefillKind") {
	case 0, 1, 2:
		c.Prefill = 0
	case 3:
		c.Prefill = rapid.SampledFrom([]int{1, 9, 10, 11}).Draw(t, "prefillSmall")
	case 4:
		c.Prefill = rapid.IntRange(495, 502).Draw(t, "prefill500")
	case 5:
		c.Prefill = rapid.IntRange(995, 1002).Draw(t, "prefill1000")
	case 6:
		c.Prefill = rapid.IntRange(1490, 1502).Draw(t, "prefill1500")
	case 7:
		c.Prefill = rapid.IntRange(1985, 2002).Draw(t, "prefill2000")
	case 8:
		c.Prefill = rapid.IntRange(2985, 3002).Draw(t, "prefill3000")
	default:
		c.Prefill = rapid.IntRange(0, 3500).Draw(t, "prefillAny")
	}
	if c.Prefill > 0 && rapid.Bool().Draw(t, "hasState") {
		// a restart: the consumer had processed up to some entry
		c.StateOffset = c.Prefill - 1 - rapid.SampledFrom([]int{0, 0, 1, 5, 30}).Draw(t, "behind")
		if c.StateOffset < 0 {
			c.StateOffset = 0
		}
	}
	ns := rapid.IntRange(1, 3).Draw(t, "nsubs")
	for i := 0; i < ns; i++ {
		c.Subs = append(c.Subs, Sub{rapid.SampledFrom(filtersPool).Draw(t, "filter"), byte(rapid.IntRange(0, 2).Draw(t, "subqos"))})
	}
	c.Pubs = rapid.IntRange(1, 3).Draw(t, "npubs")
	nm := rapid.IntRange(1, maxMsgs).Draw(t, "nmsgs")
	emptyUsed := false
	for i := 0; i < nm; i++ {
		m := Msg{Pub: rapid.IntRange(0, c.Pubs-1).Draw(t, "pub"), Topic: rapid.SampledFrom(topicsPool).Draw(t, "topic"), QoS: byte(rapid.IntRange(0, 2).Draw(t, "qos"))}
		switch rapid.IntRange(0, 19).Draw(t, "size") {
		case 0:
			if !emptyUsed {
				m.Size, m.Topic, emptyUsed = 0, "a/empty", true
			} else {
				m.Size = 8
			}
		case 1:
			m.Size = 70000
		case 2, 3:
			m.Size = 100
		case 4:
			// the encoded packet sits on a boundary of the remaining-length encoding (1/2/3/4 length bytes)
			b := rapid.SampledFrom([]int{127, 128, 16383, 16384, 2097151, 2097152}).Draw(t, "rlBoundary")
			m.Size = b - 2 - len(m.Topic) - 2*rapid.IntRange(0, 1).Draw(t, "withID") + rapid.IntRange(-1, 1).Draw(t, "off")
		case 5:
			// larger than any buffer on the way (1 MiB, 4 MiB), rarely
			if rapid.IntRange(0, 2).Draw(t, "big") == 0 {
				m.Size = rapid.SampledFrom([]int{1<<20 - 40, 1<<20 + 1, 1<<20 + 70000, 3 << 20, 4<<20 + 5}).Draw(t, "bigSize")
			} else {
				m.Size = 8
			}
		default:
			m.Size = 8
		}
		m.Dup = rapid.IntRange(0, 3).Draw(t, "dup") == 0
		m.Retain = rapid.IntRange(0, 4).Draw(t, "retain") == 0
		c.Msgs = append(c.Msgs, m)
	}
	c.Burst = rapid.SampledFrom([]int{0, 0, 1, 5, 10, 11}).Draw(t, "burst")
	return c
}

func TestRandom(t *testing.T) {
	rapid.Check(t, func(t *rapid.T) { check(t, genCase(t, 60)) })
}

// TestLong: single histories long enough to cross the segment (500), the batch (10) and the
// truncation (>1500, every 1000) boundaries by themselves, from an empty log.
func TestLong(t *testing.T) {
	for _, n := range []int{1100, 2300} {
		if n > 1100 && ev.Tier() != "thorough" {
			continue
		}
		c := Case{StateOffset: -1, Subs: []Sub{{"#", 0}, {"a/#", 1}}, Pubs: 2, Burst: 250}
		for i := 0; i < n; i++ {
			c.Msgs = append(c.Msgs, Msg{Pub: i % 2, Topic: topicsPool[i%len(topicsPool)], QoS: byte(i % 3), Size: 8})
		}
		check(t, c, "long")
	}
}

// TestStalledSubscriber: back-pressure. A subscriber stays connected but stops reading (its
// transport buffers are full: the broker's writes to it block) for StallS seconds of real
// time while a publisher keeps publishing at QoS 1 and is acknowledged for every message (the
// log accepts them; the delivery side is what is stuck). When the subscriber reads again,
// every acknowledged message must still reach it and the other subscribers.
func TestStalledSubscriber(t *testing.T) {
	stall := time.Duration(ev.Scale(12, 40)) * time.Second
	si, sn := ev.Shard()
	for di, during := range []int{40, 90} {
		if di%sn != si {
			continue
		}
		c := map[string]interface{}{"scenario": "subscriber stops reading, publisher goes on", "stall_s": stall.Seconds(), "publishes_during_stall": during}
		ev.Case(true, c, "stalled-subscriber")
		cl, err := sim.NewCluster()
		if err != nil {
			t.Fatalf("VERIF-INCONCLUSIVE %v", err)
		}
		func() {
			defer cl.Close()
			n, err := cl.AddNode(sim.NodeOpts{})
			if err != nil {
				t.Fatalf("VERIF-INCONCLUSIVE %v", err)
			}
			mk := func(name string, sub bool, q byte) *sim.Client {
				k := cl.NewClient(name)
				k.AttachTo(n)
				k.Send(sim.EncConnect(sim.ConnectOpts{ClientID: name, KeepAlive: 6000}))
				if sub {
					k.Send(sim.EncSubscribe(1, []string{"s/#"}, []byte{q}))
				}
				return k
			}
			slow, other, pub := mk("slow", true, 1), mk("other", true, 0), mk("pub", false, 0)
			if err := cl.Settle(); err != nil {
				ev.Inconclusive(t, err.Error())
				return
			}
			total := 0
			publish := func(k int) {
				for i := 0; i < k; i++ {
					total++
					pub.Send(sim.EncPublish("s/x", []byte(fmt.Sprintf("m%d", total)), 1, false, false, uint16(total)))
				}
			}
			acked := func() int {
				pub.Pump()
				return pub.Count(sim.PUBACK)
			}
			publish(5)
			if err := cl.Settle(); err != nil {
				ev.Inconclusive(t, err.Error())
				return
			}
			slow.Conn.StallWrites(true)
			t0 := time.Now()
			publish(during)
			for time.Since(t0) < stall {
				acked()
				other.Pump()
				time.Sleep(20 * time.Millisecond)
			}
			nAcked := acked()
			slow.Conn.StallWrites(false)
			cl.SettleBudget = 60 * time.Second
			if err := cl.Settle(); err != nil {
				ev.Inconclusive(t, err.Error())
				return
			}
			nAcked = acked()
			for _, k := range []*sim.Client{slow, other} {
				got := map[string]int{}
				for _, p := range k.Publishes() {
					got[p.Payload]++
				}
				for i := 1; i <= total; i++ {
					if pub.Has(sim.PUBACK, uint16(i)) && got[fmt.Sprintf("m%d", i)] == 0 {
						ev.Fail(t, "stalled-subscriber", c, "message m%d was acknowledged to the publisher (%d of %d acknowledged) but never reached subscriber %q after it resumed reading (stalled for %v)", i, nAcked, total, k.Name, stall)
						return
					}
				}
			}
			if nAcked != total {
				ev.Fail(t, "stalled-subscriber", c, "only %d of %d publishes were acknowledged although the log accepted them", nAcked, total)
			}
		}()
	}
}

func init() {
	kinds["stalled-subscriber"] = func(t ev.TB, raw json.RawMessage) {
		if tt, ok := t.(*testing.T); ok {
			TestStalledSubscriber(tt)
		}
	}
}
