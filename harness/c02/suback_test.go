package c02

// A publish acknowledged right after the subscriber received its SUBACK.
//
// From the moment a client holds the SUBACK its subscription exists: a publish that another
// client sends at that very moment and that the broker acknowledges has to reach it. The fake
// connection offers every chunk written to the subscriber to a hook before the broker's write
// returns; when the SUBACK has gone by, the hook sends a QoS 1 / QoS 2 publish from another
// connection on a topic matching one of the filters of that SUBSCRIBE and waits for its
// acknowledgement - the schedule in which a publisher reacts to the SUBACK as fast as anything
// can. Generated: 1-3 filters, which filter the publish matches, 0-60 retained messages under the
// first filter (they are replayed between SUBACK and whatever comes next), QoS.

import (
	"encoding/json"
	"fmt"
	"sync"
	"testing"
	"time"

	"pgregory.net/rapid"
	"verifharness/internal/ev"
	"verifharness/internal/sim"
)

type SubAckCase struct {
	Filters  int  `json:"filters"`
	Match    int  `json:"match"`    // the publish matches this filter
	Retained int  `json:"retained"` // retained messages under the first filter
	QoS      int  `json:"qos"`
	SubQoS   int  `json:"sub_qos"`
	TwoSubs  bool `json:"two_subs"` // a second subscriber doing the same at the same time
}

func runSubAck(c SubAckCase) *failure {
	cl, err := sim.NewCluster()
	if err != nil {
		return &failure{err.Error(), true}
	}
	defer cl.Close()
	n, err := cl.AddNode(sim.NodeOpts{})
	if err != nil {
		return &failure{err.Error(), true}
	}
	mk := func(name string) *sim.Client {
		k := cl.NewClient(name)
		k.AttachTo(n)
		k.Send(sim.EncConnect(sim.ConnectOpts{ClientID: name, KeepAlive: 6000}))
		return k
	}
	seedc := mk("seed")
	for i := 0; i < c.Retained; i++ {
		seedc.Send(sim.EncPublish(fmt.Sprintf("f0/r%d", i), []byte(fmt.Sprintf("retained-%d", i)), 0, true, false, 0))
	}
	nsubs := 1
	if c.TwoSubs {
		nsubs = 2
	}
	var subs, pubs []*sim.Client
	for i := 0; i < nsubs; i++ {
		subs = append(subs, mk(fmt.Sprintf("sub%d", i)))
		pubs = append(pubs, mk(fmt.Sprintf("pub%d", i)))
	}
	if err := cl.Settle(); err != nil {
		return &failure{err.Error(), true}
	}
	var filters []string
	var qos []byte
	for i := 0; i < c.Filters; i++ {
		filters = append(filters, fmt.Sprintf("f%d/#", i))
		qos = append(qos, byte(c.SubQoS))
	}
	topic := fmt.Sprintf("f%d/live", c.Match)
	ackType := byte(sim.PUBACK)
	if c.QoS == 2 {
		ackType = sim.PUBCOMP
	}
	done := make([]chan bool, nsubs)
	for i := 0; i < nsubs; i++ {
		i := i
		done[i] = make(chan bool, 1)
		pub := pubs[i]
		var seen []byte
		var mu sync.Mutex
		fired := false
		subs[i].Conn.OnWritten(func(p []byte) bool {
			// the SUBACK (0x90, remaining length 2 + filters, identifier 0x0007) has gone by; other
			// broker goroutines (retained replays) may write meanwhile: the hook acts once
			mu.Lock()
			if fired {
				mu.Unlock()
				return true
			}
			seen = append(seen, p...)
			at := -1
			for j := 0; j+4 <= len(seen); j++ {
				if seen[j] == 0x90 && int(seen[j+1]) == 2+c.Filters && seen[j+2] == 0 && seen[j+3] == 7 {
					at = j
				}
			}
			if at < 0 || len(seen) < at+2+2+c.Filters {
				mu.Unlock()
				return false
			}
			fired = true
			mu.Unlock()
			pub.Send(sim.EncPublish(topic, []byte(fmt.Sprintf("live-%d", i)), byte(c.QoS), false, false, 9))
			ok := false
			for until := time.Now().Add(10 * time.Second); time.Now().Before(until); time.Sleep(200 * time.Microsecond) {
				pub.Pump() // answers PUBREC with PUBREL itself
				if pub.Has(ackType, 9) {
					ok = true
					break
				}
			}
			done[i] <- ok
			return true
		})
	}
	for i := 0; i < nsubs; i++ {
		subs[i].Send(sim.EncSubscribe(7, filters, qos))
	}
	for i := 0; i < nsubs; i++ {
		select {
		case ok := <-done[i]:
			if !ok {
				return &failure{"the publish sent when the SUBACK arrived was not acknowledged within 10 s", true}
			}
		case <-time.After(30 * time.Second):
			return &failure{"no SUBACK seen within 30 s", true}
		}
	}
	if err := cl.Settle(); err != nil {
		return &failure{err.Error(), true}
	}
	for i, s := range subs {
		got := 0
		for _, p := range s.Publishes() {
			if p.Topic == topic && p.Payload == fmt.Sprintf("live-%d", i) {
				got++
			}
		}
		if got == 0 {
			return &failure{fmt.Sprintf("subscriber %d held the SUBACK for %v when %q was published and acknowledged (%s), and stayed connected, but never received it (it received %d publishes)", i, filters, topic, sim.TypeName(ackType), len(s.Publishes())), false}
		}
	}
	return nil
}

func checkSubAck(t ev.TB, c SubAckCase) {
	ev.WriteCurrent("publish-at-suback", c)
	f := runSubAck(c)
	if f != nil && !f.inconclusive {
		if f2 := runSubAck(c); f2 == nil || f2.inconclusive {
			ev.Count("unconfirmed_failures", 1)
			f = nil
		}
	}
	ev.Case(true, c, "publish-at-suback", fmt.Sprintf("filters:%d", c.Filters))
	if f != nil && f.inconclusive {
		ev.Inconclusive(t, f.msg)
		return
	}
	if f != nil {
		ev.Fail(t, "publish-at-suback", c, "%s", f.msg)
	}
}

func init() {
	kinds["publish-at-suback"] = func(t ev.TB, raw json.RawMessage) {
		var c SubAckCase
		ev.Decode(t, raw, &c)
		checkSubAck(t, c)
	}
}

func TestPublishAtSubAck(t *testing.T) {
	rapid.Check(t, func(t *rapid.T) {
		c := SubAckCase{Filters: rapid.IntRange(1, 3).Draw(t, "filters"), QoS: rapid.IntRange(1, 2).Draw(t, "qos"), SubQoS: rapid.IntRange(0, 2).Draw(t, "subQoS"),
			Retained: rapid.SampledFrom([]int{0, 0, 3, 30, 60}).Draw(t, "retained"), TwoSubs: rapid.Bool().Draw(t, "twoSubs")}
		c.Match = rapid.IntRange(0, c.Filters-1).Draw(t, "match")
		checkSubAck(t, c)
	})
}
