package c16

import (
	"context"
	"encoding/json"
	"fmt"
	"os"
	"path/filepath"
	"runtime"
	"sync"
	"sync/atomic"
	"testing"

	"github.com/vx-labs/wasp/v4/wasp/auth"
	"verifharness/internal/ev"
)

// ConcCase: the connection manager runs 20 set-up workers on ONE credential handler, so
// CONNECTs of different clients are authenticated at the same moment. Goroutines present
// listed and unlisted credentials concurrently; every single answer must be the one the table
// gives (admission, refusal and mount point), exactly as when asked one at a time.
type ConcCase struct {
	Store      string `json:"store"` // file | static
	Goroutines int    `json:"goroutines"`
	PerG       int    `json:"per_goroutine"`
	Procs      int    `json:"gomaxprocs"`
}

func runConc(c ConcCase) string {
	old := runtime.GOMAXPROCS(c.Procs)
	defer runtime.GOMAXPROCS(old)
	entries := []Entry{{User: "alice", Password: "wonderland", Fields: 3, MountPoint: "tenant1"}, {User: "bob", Password: "builder", Fields: 2, MountPoint: ""}, {User: "carol", Password: "christmas", Fields: 3, MountPoint: "tenant2"}, {User: "dave", Password: "davedave", Fields: 3, MountPoint: ""}, {User: "erin", Password: "e", Fields: 2, MountPoint: ""}, {User: "frank", Password: "frankly-a-rather-long-password-0123456789", Fields: 3, MountPoint: "mp"}}
	var h interface {
		Authenticate(context.Context, auth.ApplicationContext, auth.TransportContext) (auth.Principal, error)
	}
	if c.Store == "static" {
		entries = entries[:1]
		entries[0].MountPoint, entries[0].Fields = "", 2
		sh, err := auth.StaticHandler(entries[0].User, entries[0].Password)
		if err != nil {
			return "StaticHandler: " + err.Error()
		}
		h = sh
	} else {
		dir, err := os.MkdirTemp("", "c16c")
		if err != nil {
			return ""
		}
		defer os.RemoveAll(dir)
		p := filepath.Join(dir, "creds")
		os.WriteFile(p, []byte(fileText(entries)), 0600)
		fh, err := auth.FileHandler(p)
		if err != nil {
			return "FileHandler: " + err.Error()
		}
		h = fh
	}
	cands := candidates(FileCase{Entries: entries})
	var bad int64
	var first atomic.Value
	var wg sync.WaitGroup
	start := make(chan struct{})
	for g := 0; g < c.Goroutines; g++ {
		wg.Add(1)
		go func(g int) {
			defer wg.Done()
			<-start
			for i := 0; i < c.PerG; i++ {
				cand := cands[(i*7+g*3)%len(cands)]
				var row *Entry
				for k := range entries {
					if entries[k].User == cand.User && entries[k].Password == cand.Password {
						row = &entries[k]
					}
				}
				pr, err := h.Authenticate(context.Background(), auth.ApplicationContext{ClientID: []byte("cid"), Username: []byte(cand.User), Password: []byte(cand.Password)}, auth.TransportContext{})
				msg := ""
				switch {
				case row != nil && err != nil:
					msg = fmt.Sprintf("(%q,%q) is listed but was refused", cand.User, cand.Password)
				case row == nil && err == nil:
					msg = fmt.Sprintf("(%q,%q) is not listed but was admitted (mount point %q)", cand.User, cand.Password, pr.MountPoint)
				case row != nil:
					want := auth.DefaultMountPoint
					if row.Fields == 3 && row.MountPoint != "" {
						want = row.MountPoint
					}
					if pr.MountPoint != want {
						msg = fmt.Sprintf("(%q,%q) admitted into mount point %q, want %q", cand.User, cand.Password, pr.MountPoint, want)
					}
				}
				if msg != "" {
					if atomic.AddInt64(&bad, 1) == 1 {
						first.Store(msg)
					}
				}
			}
		}(g)
	}
	close(start)
	wg.Wait()
	if bad > 0 {
		return fmt.Sprintf("%d of %d concurrent authentications were answered wrongly; first: %v", bad, c.Goroutines*c.PerG, first.Load())
	}
	return ""
}

func checkConc(t ev.TB, c ConcCase) {
	ev.Case(true, c, "concurrent-auth", "store:"+c.Store)
	ev.Count("concurrent_authentications", int64(c.Goroutines*c.PerG))
	if msg := runConc(c); msg != "" {
		ev.Fail(t, "cred-concurrent", c, "%s", msg)
	}
}

func init() {
	kinds["cred-concurrent"] = func(t ev.TB, raw json.RawMessage) {
		var c ConcCase
		ev.Decode(t, raw, &c)
		checkConc(t, c)
	}
}

func TestConcurrentAuth(t *testing.T) {
	reps := ev.Scale(2, 10)
	for r := 0; r < reps; r++ {
		for _, c := range []ConcCase{{"file", 20, 3000, 16}, {"file", 4, 10000, 4}, {"file", 8, 5000, 2}, {"static", 20, 3000, 16}} {
			checkConc(t, c)
		}
	}
}
