// C16 — clients are admitted if and only if their credentials match the configured store.
//
// This file: the credential stores themselves (auth.FileHandler, auth.StaticHandler) against
// a table; e2e_test.go checks the CONNECT path of a running broker.
package c16

import (
	"context"
	"crypto/sha256"
	"encoding/json"
	"fmt"
	"os"
	"path/filepath"
	"strings"
	"testing"

	"github.com/vx-labs/wasp/v4/wasp/auth"
	"pgregory.net/rapid"
	"verifharness/internal/ev"
)

func TestMain(m *testing.M) { ev.Main(m, "C16") }

var kinds = ev.Kinds{}

func TestReplayFile(t *testing.T) { ev.ReplayFile(t, kinds) }
func TestRegress(t *testing.T)    { ev.Regress(t, kinds, "testdata/regress") }

type Entry struct {
	User       string `json:"user"`
	Password   string `json:"password"`
	Fields     int    `json:"fields"` // 2 or 3
	MountPoint string `json:"mountpoint,omitempty"`
	// Cut >= 0 (with HasCut): the password column holds only the first Cut digits of the digest
	// (0: an empty column, the usual way of disabling an account by hand): such a line matches
	// no password at all
	HasCut bool `json:"has_cut,omitempty"`
	Cut    int  `json:"cut,omitempty"`
}

func (e Entry) column() string {
	h := hexsha(e.Password)
	if e.HasCut && e.Cut < len(h) {
		return h[:e.Cut]
	}
	return h
}

type Cand struct {
	User     string `json:"user"`
	Password string `json:"password"`
}

type FileCase struct {
	Entries []Entry `json:"entries"`
	Extra   []Cand  `json:"extra_candidates"`
}

func hexsha(s string) string { return fmt.Sprintf("%x", sha256.Sum256([]byte(s))) }

func fileText(es []Entry) string {
	var b strings.Builder
	for _, e := range es {
		if e.Fields == 3 {
			fmt.Fprintf(&b, "%s:%s:%s\n", e.User, e.column(), e.MountPoint)
		} else {
			fmt.Fprintf(&b, "%s:%s\n", e.User, e.column())
		}
	}
	return b.String()
}

// candidates: every present pair, swapped fields, right user / wrong password, wrong user /
// right password, empty values, plus the generated extras.
func candidates(c FileCase) []Cand {
	var out []Cand
	for i, e := range c.Entries {
		out = append(out, Cand{e.User, e.Password}, Cand{e.Password, e.User}, Cand{e.User, e.Password + "x"}, Cand{e.User, ""}, Cand{"", e.Password}, Cand{e.User + "x", e.Password})
		// what the store itself holds is not a credential: the digest of the password (as written
		// in the file), the digest of the user name
		out = append(out, Cand{e.User, hexsha(e.Password)}, Cand{hexsha(e.User), e.Password}, Cand{hexsha(e.User), hexsha(e.Password)})
		if len(c.Entries) > 1 {
			o := c.Entries[(i+1)%len(c.Entries)]
			out = append(out, Cand{e.User, o.Password})
		}
	}
	out = append(out, Cand{"", ""}, Cand{"nobody", "nothing"})
	return append(out, c.Extra...)
}

func runFile(c FileCase, dir string) (msg string, nt bool) {
	defer func() {
		if r := recover(); r != nil {
			msg = fmt.Sprintf("panic: %v", r)
		}
	}()
	p := filepath.Join(dir, "creds")
	if err := os.WriteFile(p, []byte(fileText(c.Entries)), 0600); err != nil {
		return "", false
	}
	defer os.Remove(p)
	h, err := auth.FileHandler(p)
	if err != nil {
		return fmt.Sprintf("FileHandler rejects a well-formed credential file: %v\n%s", err, fileText(c.Entries)), false
	}
	nt = len(c.Entries) >= 3
	for _, cand := range candidates(c) {
		var row *Entry
		for i := range c.Entries {
			if c.Entries[i].User == cand.User && c.Entries[i].Password == cand.Password && !c.Entries[i].HasCut {
				row = &c.Entries[i]
			}
		}
		pr, err := h.Authenticate(context.Background(), auth.ApplicationContext{ClientID: []byte("cid"), Username: []byte(cand.User), Password: []byte(cand.Password)}, auth.TransportContext{})
		switch {
		case row != nil && err != nil:
			return fmt.Sprintf("(%q,%q) is listed but was refused: %v", cand.User, cand.Password, err), nt
		case row == nil && err == nil:
			return fmt.Sprintf("(%q,%q) is not listed but was accepted", cand.User, cand.Password), nt
		case row != nil:
			want := auth.DefaultMountPoint
			if row.Fields == 3 && row.MountPoint != "" {
				want = row.MountPoint
			}
			if pr.MountPoint != want {
				return fmt.Sprintf("(%q,%q) accepted into mount point %q, want %q", cand.User, cand.Password, pr.MountPoint, want), nt
			}
			if pr.ID == "" {
				return fmt.Sprintf("(%q,%q) accepted with an empty session id", cand.User, cand.Password), nt
			}
		}
	}
	return "", nt
}

func checkFile(t ev.TB, c FileCase, labels ...string) {
	dir, err := os.MkdirTemp("", "c16")
	if err != nil {
		t.Fatalf("VERIF-INCONCLUSIVE tempdir: %v", err)
	}
	defer os.RemoveAll(dir)
	msg, nt := runFile(c, dir)
	mixed := map[int]bool{}
	for _, e := range c.Entries {
		mixed[e.Fields] = true
	}
	if len(mixed) == 2 {
		labels = append(labels, "mixed-2-and-3-fields")
	}
	labels = append(labels, fmt.Sprintf("entries:%d", len(c.Entries)))
	ev.Case(nt, c, labels...)
	ev.Count("candidates_checked", int64(len(candidates(c))))
	if msg != "" {
		ev.Fail(t, "cred-file", c, "%s", msg)
	}
}

func init() {
	kinds["cred-file"] = func(t ev.TB, raw json.RawMessage) {
		var c FileCase
		ev.Decode(t, raw, &c)
		checkFile(t, c, "replay")
	}
	kinds["cred-static"] = func(t ev.TB, raw json.RawMessage) {
		var c StaticCase
		ev.Decode(t, raw, &c)
		checkStatic(t, c, "replay")
	}
}

var word = rapid.StringMatching(`[a-z0-9_]{0,6}`)

func TestFile(t *testing.T) {
	rapid.Check(t, func(t *rapid.T) {
		n := rapid.IntRange(0, 6).Draw(t, "n")
		c := FileCase{}
		seen := map[string]bool{}
		for len(c.Entries) < n {
			u := word.Draw(t, "user")
			if seen[u] {
				u = fmt.Sprintf("%s%d", u, len(c.Entries))
				if seen[u] || len(u) > 8 {
					continue
				}
			}
			seen[u] = true
			e := Entry{User: u, Password: word.Draw(t, "password"), Fields: 2}
			if rapid.IntRange(0, 7).Draw(t, "hexToken") == 0 {
				// a password that happens to look like a digest: 64 lower-case hex characters
				e.Password = hexsha("token-" + u)
			}
			if rapid.IntRange(0, 5).Draw(t, "cut") == 0 {
				e.HasCut, e.Cut = true, rapid.SampledFrom([]int{0, 0, 1, 8, 32, 63}).Draw(t, "cutAt")
			}
			if rapid.Bool().Draw(t, "three") {
				e.Fields = 3
				e.MountPoint = rapid.SampledFrom([]string{"tenant1", "tenant2", "mp", "_default", ""}).Draw(t, "mp")
			}
			c.Entries = append(c.Entries, e)
		}
		k := rapid.IntRange(0, 3).Draw(t, "extras")
		for i := 0; i < k; i++ {
			c.Extra = append(c.Extra, Cand{word.Draw(t, "cu"), word.Draw(t, "cp")})
		}
		checkFile(t, c)
	})
}

type StaticCase struct {
	User     string `json:"user"`
	Password string `json:"password"`
	Cands    []Cand `json:"candidates"`
}

func checkStatic(t ev.TB, c StaticCase, labels ...string) {
	h, err := auth.StaticHandler(c.User, c.Password)
	if err != nil {
		ev.Fail(t, "cred-static", c, "StaticHandler: %v", err)
	}
	cands := append([]Cand{{c.User, c.Password}, {c.Password, c.User}, {c.User, c.Password + "x"}, {c.User + "x", c.Password}, {"", ""}, {c.User, ""}, {"", c.Password},
		{c.User, hexsha(c.Password)}, {hexsha(c.User), c.Password}, {hexsha(c.User), hexsha(c.Password)}}, c.Cands...)
	// the same characters split differently between the two fields must not be admitted
	whole := c.User + c.Password
	for i := 0; i <= len(whole); i++ {
		cands = append(cands, Cand{whole[:i], whole[i:]})
	}
	for i := 0; i < len(c.User); i++ {
		if c.User[i] == ':' {
			cands = append(cands, Cand{c.User[:i], c.User[i+1:] + ":" + c.Password})
		}
	}
	for i := 0; i < len(c.Password); i++ {
		if c.Password[i] == ':' {
			cands = append(cands, Cand{c.User + ":" + c.Password[:i], c.Password[i+1:]})
		}
	}
	ev.Case(c.User != c.Password, c, append(labels, "static")...)
	for _, cand := range cands {
		pr, err := h.Authenticate(context.Background(), auth.ApplicationContext{Username: []byte(cand.User), Password: []byte(cand.Password)}, auth.TransportContext{})
		want := cand.User == c.User && cand.Password == c.Password
		switch {
		case want && err != nil:
			ev.Fail(t, "cred-static", c, "(%q,%q) is the configured pair but was refused: %v", cand.User, cand.Password, err)
		case !want && err == nil:
			ev.Fail(t, "cred-static", c, "(%q,%q) is not the configured pair but was accepted", cand.User, cand.Password)
		case want && pr.MountPoint != auth.DefaultMountPoint:
			ev.Fail(t, "cred-static", c, "accepted into mount point %q, want the default one", pr.MountPoint)
		}
	}
}

func TestStatic(t *testing.T) {
	rapid.Check(t, func(t *rapid.T) {
		// the static store takes its pair from the command line: any characters, ':' included
		sw := rapid.StringMatching(`[a-c:_ ]{0,6}`)
		c := StaticCase{User: sw.Draw(t, "user"), Password: sw.Draw(t, "password")}
		if rapid.Bool().Draw(t, "plainWords") {
			c = StaticCase{User: word.Draw(t, "user2"), Password: word.Draw(t, "password2")}
		}
		k := rapid.IntRange(0, 4).Draw(t, "extras")
		for i := 0; i < k; i++ {
			c.Cands = append(c.Cands, Cand{word.Draw(t, "cu"), word.Draw(t, "cp")})
		}
		checkStatic(t, c)
	})
}
