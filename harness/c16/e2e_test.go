package c16

import (
	"encoding/json"
	"fmt"
	"os"
	"path/filepath"
	"testing"

	"github.com/vx-labs/wasp/v4/wasp"
	"github.com/vx-labs/wasp/v4/wasp/auth"
	"pgregory.net/rapid"
	"verifharness/internal/ev"
	"verifharness/internal/sim"
)

// E2E: the credential store wired into a running node; CONNECT attempts with generated
// credentials, each with a will; a refused client keeps talking on its connection.
type Attempt struct {
	User     string `json:"user"`
	Password string `json:"password"`
	// NoClientID: the CONNECT carries a zero-length client identifier (legal in MQTT 3.1.1)
	NoClientID bool `json:"no_client_id,omitempty"`
}

type E2E struct {
	Static   bool      `json:"static"` // static store built from Entries[0]
	Entries  []Entry   `json:"entries"`
	Attempts []Attempt `json:"attempts"`
}

type failure struct {
	msg          string
	inconclusive bool
}

func runE2E(c E2E) *failure {
	cl, err := sim.NewCluster()
	if err != nil {
		return &failure{err.Error(), true}
	}
	defer cl.Close()
	var h wasp.AuthenticationHandler
	if c.Static {
		h, err = auth.StaticHandler(c.Entries[0].User, c.Entries[0].Password)
	} else {
		p := filepath.Join(cl.TmpRoot, "creds")
		if err := os.WriteFile(p, []byte(fileText(c.Entries)), 0600); err != nil {
			return &failure{err.Error(), true}
		}
		h, err = auth.FileHandler(p)
	}
	if err != nil {
		return &failure{fmt.Sprintf("credential store rejects a well-formed configuration: %v", err), false}
	}
	n, err := cl.AddNode(sim.NodeOpts{Auth: h})
	if err != nil {
		return &failure{err.Error(), true}
	}
	settle := func() *failure {
		if err := cl.Settle(); err != nil {
			return &failure{err.Error(), true}
		}
		return nil
	}
	for i, a := range c.Attempts {
		var row *Entry
		for j := range c.Entries {
			if c.Entries[j].User == a.User && c.Entries[j].Password == a.Password && (!c.Static || j == 0) {
				row = &c.Entries[j]
			}
		}
		sessBefore := len(n.State.SessionMetadatas().All())
		subsBefore := len(n.State.Subscriptions().All())
		regBefore := len(n.Local.ListSessions())
		k := cl.NewClient(fmt.Sprintf("att%d", i))
		k.AttachTo(n)
		will := fmt.Sprintf("will-of-attempt-%d", i)
		cid := k.Name
		if a.NoClientID {
			cid = ""
		}
		k.Send(sim.EncConnect(sim.ConnectOpts{ClientID: cid, KeepAlive: 600, Username: a.User, Password: a.Password, WillTopic: "w", WillPayload: will}))
		if f := settle(); f != nil {
			return f
		}
		var connack *sim.Packet
		for j := range k.Rx {
			if k.Rx[j].Type == sim.CONNACK {
				connack = &k.Rx[j]
			}
		}
		if connack == nil {
			return &failure{fmt.Sprintf("attempt %d (%q,%q): no CONNACK at all (connection closed by broker: %v)", i, a.User, a.Password, k.Conn.State().BrokerClosed), false}
		}
		if row != nil {
			if connack.Code != 0 {
				return &failure{fmt.Sprintf("attempt %d (%q,%q) matches a configured entry but got CONNACK %d", i, a.User, a.Password, connack.Code), false}
			}
			sid := n.Local.SessionOf(k.Conn)
			md, err := n.State.SessionMetadatas().Get(sid)
			if err != nil {
				return &failure{fmt.Sprintf("attempt %d accepted but no session record", i), false}
			}
			want := auth.DefaultMountPoint
			if !c.Static && row.Fields == 3 && row.MountPoint != "" {
				want = row.MountPoint
			}
			if md.MountPoint != want {
				return &failure{fmt.Sprintf("attempt %d (%q) placed in mount point %q, want %q", i, a.User, md.MountPoint, want), false}
			}
			// accepted clients leave again, cleanly
			k.Send(sim.EncDisconnect())
			if f := settle(); f != nil {
				return f
			}
			continue
		}
		if connack.Code != 4 && connack.Code != 5 {
			return &failure{fmt.Sprintf("attempt %d (%q,%q) matches no entry but got CONNACK %d, want a refusal (4 or 5)", i, a.User, a.Password, connack.Code), false}
		}
		// the refused client keeps talking; nothing may come of it
		k.Send(sim.EncSubscribe(1, []string{"#"}, []byte{1}))
		k.Send(sim.EncPublish("x", []byte("from-refused-"+will), 0, true, false, 0))
		k.Refused = true
		if f := settle(); f != nil {
			return f
		}
		k.Close()
		if f := settle(); f != nil {
			return f
		}
		if got := len(n.State.SessionMetadatas().All()); got != sessBefore {
			return &failure{fmt.Sprintf("refused attempt %d (%q,%q) changed the number of session records from %d to %d", i, a.User, a.Password, sessBefore, got), false}
		}
		if got := len(n.State.Subscriptions().All()); got != subsBefore {
			return &failure{fmt.Sprintf("refused attempt %d created a subscription", i), false}
		}
		if got := len(n.Local.ListSessions()); got != regBefore {
			return &failure{fmt.Sprintf("refused attempt %d left an entry in the session registry", i), false}
		}
		for _, ap := range n.Log.Appends() {
			if ap.Payload == will || ap.Payload == "from-refused-"+will {
				return &failure{fmt.Sprintf("refused attempt %d: %q was published (topic %s)", i, ap.Payload, ap.Topic), false}
			}
		}
		if msgs, _ := n.State.Topics().Get([]byte("#")); len(msgs) != 0 {
			return &failure{fmt.Sprintf("refused attempt %d created a retained message", i), false}
		}
	}
	return nil
}

func checkE2E(t ev.TB, c E2E, labels ...string) {
	ev.WriteCurrent("connect-auth", c)
	f := runE2E(c)
	if f != nil && !f.inconclusive {
		if f2 := runE2E(c); f2 == nil || f2.inconclusive {
			ev.Count("unconfirmed_failures", 1)
			f = nil
		}
	}
	acc, ref := false, false
	for _, a := range c.Attempts {
		hit := false
		for j, e := range c.Entries {
			if e.User == a.User && e.Password == a.Password && (!c.Static || j == 0) {
				hit = true
			}
		}
		if hit {
			acc = true
		} else {
			ref = true
		}
	}
	if c.Static {
		labels = append(labels, "static-store")
	} else {
		labels = append(labels, "file-store")
	}
	ev.Case(acc && ref, c, append(labels, "e2e")...)
	if f != nil && f.inconclusive {
		ev.Inconclusive(t, f.msg)
		return
	}
	if f != nil {
		ev.Fail(t, "connect-auth", c, "%s", f.msg)
	}
}

func init() {
	kinds["connect-auth"] = func(t ev.TB, raw json.RawMessage) {
		var c E2E
		ev.Decode(t, raw, &c)
		checkE2E(t, c, "replay")
	}
}

func TestE2E(t *testing.T) {
	rapid.Check(t, func(t *rapid.T) {
		c := E2E{Static: rapid.IntRange(0, 3).Draw(t, "static") == 0}
		n := rapid.IntRange(1, 5).Draw(t, "n")
		seen := map[string]bool{}
		for len(c.Entries) < n {
			u := rapid.StringMatching(`[a-z0-9_]{1,6}`).Draw(t, "user")
			if seen[u] {
				continue
			}
			seen[u] = true
			e := Entry{User: u, Password: rapid.StringMatching(`[a-z0-9_]{1,6}`).Draw(t, "password"), Fields: 2}
			if rapid.Bool().Draw(t, "three") {
				e.Fields, e.MountPoint = 3, rapid.SampledFrom([]string{"tenant1", "tenant2", ""}).Draw(t, "mp")
			}
			c.Entries = append(c.Entries, e)
		}
		k := rapid.IntRange(2, 6).Draw(t, "attempts")
		for i := 0; i < k; i++ {
			e := c.Entries[rapid.IntRange(0, len(c.Entries)-1).Draw(t, "which")]
			switch rapid.IntRange(0, 4).Draw(t, "kind") {
			case 0, 1:
				c.Attempts = append(c.Attempts, Attempt{User: e.User, Password: e.Password})
			case 2:
				c.Attempts = append(c.Attempts, Attempt{User: e.User, Password: e.Password + "x"})
			case 3:
				c.Attempts = append(c.Attempts, Attempt{User: e.Password, Password: e.User})
			default:
				c.Attempts = append(c.Attempts, Attempt{User: rapid.StringMatching(`[a-z0-9_]{0,6}`).Draw(t, "u"), Password: rapid.StringMatching(`[a-z0-9_]{0,6}`).Draw(t, "p")})
			}
			c.Attempts[len(c.Attempts)-1].NoClientID = rapid.IntRange(0, 3).Draw(t, "noClientID") == 0
		}
		checkE2E(t, c)
	})
}
