// C19 — topic-keyed stores behave as maps over full topic strings.
//
// Both tries (topics.Store, subscriptions.Tree) are driven with generated operation
// sequences next to a map[string]string; after every operation every key (and a few
// absent probe keys) is read back and Count/Iterate are compared with the model.
package c19

import (
	"encoding/json"
	"fmt"
	"sort"
	"strings"
	"testing"
	"unicode/utf8"

	"github.com/vx-labs/wasp/v4/subscriptions"
	"github.com/vx-labs/wasp/v4/topics"
	"pgregory.net/rapid"
	"verifharness/internal/ev"
)

func TestMain(m *testing.M) { ev.Main(m, "C19") }

// Op is one step. Op ∈ ins (write/replace), rm (remove), app (upsert-append, subscriptions
// only), rt (dump → Load into a fresh store, continue on the loaded one),
// snap (dump, keep the bytes), back (Load the kept bytes into the store as it is now).
type Op struct {
	Op  string `json:"op"`
	Key string `json:"key,omitempty"`
	Val string `json:"val,omitempty"`
}

type Case struct {
	Store string   `json:"store"` // "topics" | "subs"
	Keys  []string `json:"keys"`  // keys read back after every step
	Ops   []Op     `json:"ops"`
}

var baseKeys = []string{"a", "a/b", "a/b/c", "a/c", "b"}
var absentProbes = []string{"c", "a/b/c/d", "a/a", "b/a"}

// store abstracts the two tries to the map-like view the property talks about.
type store interface {
	ins(k, v string)
	rm(k string)
	app(k, v string)
	get(k string) []string // non-empty values found at exactly k
	count() (int, bool)
	iter() []string
	roundTrip() (store, error)
	dump() ([]byte, error)
	load([]byte) error // into this very store object, whatever it holds
}

// key hands the key to the store in a scratch buffer that is overwritten right after the
// call returns: a store must not keep references into its caller's key buffer.
func key(k string, f func([]byte)) {
	b := []byte(k)
	f(b)
	for i := range b {
		b[i] = '~'
	}
}

type topicsStore struct{ s topics.Store }

func (t topicsStore) ins(k, v string) { key(k, func(b []byte) { t.s.Insert(b, []byte(v)) }) }
func (t topicsStore) rm(k string)     { key(k, func(b []byte) { t.s.Remove(b) }) }
func (t topicsStore) app(k, v string) { panic("no append on topics store") }
func (t topicsStore) get(k string) []string {
	var out [][]byte
	key(k, func(b []byte) { t.s.Match(b, &out) })
	return nonEmpty(out)
}
func (t topicsStore) count() (int, bool) { return t.s.Count(), true }
func (t topicsStore) iter() []string {
	var out [][]byte
	t.s.Iterate(func(b []byte) { out = append(out, b) })
	return nonEmpty(out)
}
func (t topicsStore) roundTrip() (store, error) {
	b, err := t.s.Dump()
	if err != nil {
		return nil, err
	}
	n := topics.NewTree()
	if err := n.Load(b); err != nil {
		return nil, err
	}
	return topicsStore{n}, nil
}

func (t topicsStore) dump() ([]byte, error) { return t.s.Dump() }
func (t topicsStore) load(b []byte) error   { return t.s.Load(b) }
func (t subsStore) dump() ([]byte, error)   { return t.s.Dump() }
func (t subsStore) load(b []byte) error     { return t.s.Load(b) }

type subsStore struct{ s subscriptions.Tree }

func (t subsStore) ins(k, v string) {
	key(k, func(b []byte) { t.s.Upsert(b, func([]byte) []byte { return []byte(v) }) })
}
func (t subsStore) rm(k string) {
	key(k, func(b []byte) { t.s.Upsert(b, func([]byte) []byte { return nil }) })
}
func (t subsStore) app(k, v string) {
	key(k, func(b []byte) {
		t.s.Upsert(b, func(old []byte) []byte { return append(append([]byte{}, old...), v...) })
	})
}
func (t subsStore) get(k string) []string {
	var out [][]byte
	key(k, func(b []byte) { t.s.Walk(b, func(x []byte) { out = append(out, x) }) })
	return nonEmpty(out)
}
func (t subsStore) count() (int, bool) { return 0, false }
func (t subsStore) iter() []string {
	var out [][]byte
	t.s.Iterate(func(b []byte) { out = append(out, b) })
	return nonEmpty(out)
}
func (t subsStore) roundTrip() (store, error) {
	b, err := t.s.Dump()
	if err != nil {
		return nil, err
	}
	n := subscriptions.NewTree()
	if err := n.Load(b); err != nil {
		return nil, err
	}
	return subsStore{n}, nil
}

func nonEmpty(in [][]byte) []string {
	out := []string{}
	for _, b := range in {
		if len(b) > 0 {
			out = append(out, string(b))
		}
	}
	sort.Strings(out)
	return out
}

func newStore(kind string) store {
	if kind == "topics" {
		return topicsStore{topics.NewTree()}
	}
	return subsStore{subscriptions.NewTree()}
}

// run interprets a case; it returns an error text ("" = agreed with the model everywhere)
// and whether the case is non-trivial by the rule in DESIGN.md.
func run(c Case) (msg string, nontrivial bool) {
	defer func() {
		if r := recover(); r != nil {
			msg = fmt.Sprintf("panic: %v", r)
		}
	}()
	s := newStore(c.Store)
	model := map[string]string{}
	afterRT := false
	// snap / back: a dump taken earlier and loaded later into the store as it is by then
	// (restoring a saved image): the store answers as it did when the dump was taken
	var snapBytes []byte
	var snapModel map[string]string
	for i, op := range c.Ops {
		switch op.Op {
		case "ins", "rm", "app":
			if afterRT {
				nontrivial = true
			}
			if _, present := model[op.Key]; present || op.Op == "rm" {
				for k := range model {
					if k != op.Key && (strings.HasPrefix(k, op.Key+"/") || strings.HasPrefix(op.Key, k+"/")) {
						nontrivial = true
					}
				}
			}
		}
		switch op.Op {
		case "ins":
			if strings.HasPrefix(op.Val, "big:") {
				op.Val = op.Val + strings.Repeat("B", 700<<10)
			}
			s.ins(op.Key, op.Val)
			model[op.Key] = op.Val
		case "rm":
			s.rm(op.Key)
			delete(model, op.Key)
		case "app":
			s.app(op.Key, op.Val)
			model[op.Key] = model[op.Key] + op.Val
		case "rt":
			n, err := s.roundTrip()
			if err != nil && strings.Contains(err.Error(), "invalid UTF-8") && !allUTF8(c.Keys) {
				// the serialised form keeps levels in protobuf strings: a store holding a level that
				// is not valid UTF-8 cannot be dumped. MQTT topic names are UTF-8; the round trip is
				// only asked of stores whose keys are (the broker itself never dumps its tries).
				continue
			}
			if err != nil {
				return fmt.Sprintf("step %d: dump/load failed: %v", i, err), nontrivial
			}
			s = n
			afterRT = true
		case "snap":
			b, err := s.dump()
			if err != nil {
				if strings.Contains(err.Error(), "invalid UTF-8") && !allUTF8(c.Keys) {
					continue
				}
				return fmt.Sprintf("step %d: dump failed: %v", i, err), nontrivial
			}
			snapBytes = append([]byte{}, b...)
			snapModel = map[string]string{}
			for k, v := range model {
				snapModel[k] = v
			}
		case "back":
			if snapModel == nil {
				continue
			}
			if err := s.load(append([]byte{}, snapBytes...)); err != nil {
				return fmt.Sprintf("step %d: loading the earlier dump failed: %v", i, err), nontrivial
			}
			if len(model) > 0 || len(snapModel) > 0 {
				nontrivial = true
			}
			model = map[string]string{}
			for k, v := range snapModel {
				model[k] = v
			}
			afterRT = true
		default:
			return "bad op " + op.Op, false
		}
		if m := compare(s, model, c.Keys); m != "" {
			return fmt.Sprintf("after step %d (%s %s): %s", i, op.Op, op.Key, m), nontrivial
		}
	}
	return "", nontrivial
}

func compare(s store, model map[string]string, keys []string) string {
	for _, k := range keys {
		got := s.get(k)
		want, ok := model[k]
		switch {
		case ok && (len(got) != 1 || got[0] != want):
			return fmt.Sprintf("key %q: got %q, want [%q]", k, got, want)
		case !ok && len(got) != 0:
			return fmt.Sprintf("key %q: got %q, want nothing", k, got)
		}
	}
	mk := make([]string, 0, len(model))
	for k := range model {
		mk = append(mk, k)
	}
	sort.Strings(mk) // deterministic messages (rapid gives up shrinking when they vary)
	for _, k := range mk {
		if got := s.get(k); len(got) != 1 || got[0] != model[k] {
			return fmt.Sprintf("key %q: got %q, want [%q]", k, got, model[k])
		}
	}
	if n, ok := s.count(); ok && n != len(model) {
		return fmt.Sprintf("Count()=%d, model has %d entries", n, len(model))
	}
	want := make([]string, 0, len(model))
	for _, v := range model {
		want = append(want, v)
	}
	sort.Strings(want)
	got := s.iter()
	if strings.Join(got, "\x00") != strings.Join(want, "\x00") {
		return fmt.Sprintf("Iterate yields %q, model values %q", got, want)
	}
	return ""
}

func interp(t ev.TB, raw json.RawMessage) {
	var c Case
	ev.Decode(t, raw, &c)
	check(t, c)
}

func check(t ev.TB, c Case) {
	msg, nt := run(c)
	labels := []string{"store:" + c.Store}
	for _, op := range c.Ops {
		if op.Op == "rt" {
			labels = append(labels, "has-roundtrip")
			break
		}
		if op.Op == "back" {
			labels = append(labels, "has-restore")
			break
		}
	}
	ev.Case(nt, c, labels...)
	if msg != "" {
		ev.Fail(t, "trie-seq", c, "%s", msg)
	}
}

var kinds = ev.Kinds{"trie-seq": interp}

func TestReplayFile(t *testing.T) { ev.ReplayFile(t, kinds) }
func TestRegress(t *testing.T)    { ev.Regress(t, kinds, "testdata/regress") }

// alphabet of single steps for the exhaustive part.
func alphabet(kind string) []Op {
	var out []Op
	for _, k := range baseKeys {
		out = append(out, Op{"ins", k, "1" + k}, Op{"ins", k, "2" + k}, Op{"rm", k, ""})
		if kind == "subs" {
			out = append(out, Op{"app", k, "+" + k})
		}
	}
	return append(out, Op{Op: "rt"}, Op{Op: "snap"}, Op{Op: "back"})
}

// TestEnum: every sequence of up to L steps over the five keys of the property's
// quantifier, with the round trip as one of the steps (so it occurs at every position).
// Lengths are enumerated in increasing order, so the first failure is a shortest one.
func TestEnum(t *testing.T) {
	L := ev.Scale(4, 5)
	si, sn := ev.Shard()
	keys := append(append([]string{}, baseKeys...), absentProbes...)
	for _, kind := range []string{"topics", "subs"} {
		al := alphabet(kind)
		for l := 1; l <= L; l++ {
			idx := 0
			var rec func(prefix []Op)
			rec = func(prefix []Op) {
				if len(prefix) == l {
					idx++
					if idx%sn != si {
						return
					}
					c := Case{Store: kind, Keys: keys, Ops: append([]Op{}, prefix...)}
					msg, nt := run(c)
					ev.CaseKey(nt, kind+fmt.Sprint(prefix), func() interface{} { return c }, "enum", "store:"+kind)
					if msg != "" {
						ev.Fail(t, "trie-seq", c, "%s", msg)
					}
					return
				}
				for _, o := range al {
					rec(append(prefix, o))
				}
			}
			rec(nil)
		}
		ev.Exhaustive(fmt.Sprintf("%s store (shard %d/%d): all sequences of length 1..%d over an alphabet of %d steps (write v1, write v2, remove%s on each of %v; dump/load) — compared with the model after every step", kind, si, sn, L, len(al), map[bool]string{true: ", upsert-append", false: ""}[kind == "subs"], baseKeys))
	}
}

// genKeys draws a key set with shared prefixes, siblings and (sometimes) empty levels.
func genKeys(t *rapid.T) []string {
	levels := []string{"a", "b", "c"}
	if rapid.IntRange(0, 3).Draw(t, "emptyLevels") == 0 {
		levels = append(levels, "")
	}
	if rapid.IntRange(0, 5).Draw(t, "longLevels") == 0 {
		levels = append(levels, "ab", "é", "a b")
	}
	if rapid.IntRange(0, 5).Draw(t, "binaryLevels") == 0 {
		// levels that are not valid UTF-8 next to their usual printable spellings: distinct strings
		levels = append(levels, "\xff", `\xff`, "\xfe", `\xfe`, "%ff", "\ufffd", "\xc3", "\x00", `\x00`)
	}
	n := rapid.IntRange(2, 8).Draw(t, "nkeys")
	seen := map[string]bool{}
	var keys []string
	for len(keys) < n {
		var k string
		if len(keys) > 0 && rapid.IntRange(0, 2).Draw(t, "extend") > 0 {
			// extension or sibling of an existing key
			base := keys[rapid.IntRange(0, len(keys)-1).Draw(t, "base")]
			if rapid.Bool().Draw(t, "child") {
				k = base + "/" + rapid.SampledFrom(levels).Draw(t, "lvl")
			} else if i := strings.LastIndex(base, "/"); i >= 0 {
				k = base[:i+1] + rapid.SampledFrom(levels).Draw(t, "lvl")
			} else {
				k = rapid.SampledFrom(levels).Draw(t, "lvl")
			}
		} else {
			d := rapid.IntRange(1, 4).Draw(t, "depth")
			parts := make([]string, d)
			for i := range parts {
				parts[i] = rapid.SampledFrom(levels).Draw(t, "lvl")
			}
			k = strings.Join(parts, "/")
		}
		if k == "" { // the empty string is not a topic
			k = "a"
		}
		if strings.Count(k, "/") > 5 || seen[k] {
			if seen[k] && len(seen) > 40 {
				break
			}
			seen[k] = true
			continue
		}
		seen[k] = true
		keys = append(keys, k)
	}
	return keys
}

func genCase(t *rapid.T) Case {
	kind := rapid.SampledFrom([]string{"topics", "subs"}).Draw(t, "store")
	var keys []string
	if rapid.IntRange(0, 2).Draw(t, "baseKeys") == 0 {
		keys = append([]string{}, baseKeys...)
	} else {
		keys = genKeys(t)
	}
	n := rapid.IntRange(1, 12).Draw(t, "nops")
	// now and then the values are large (a store that serialises to several MiB)
	big := rapid.IntRange(0, 9).Draw(t, "bigValues") == 0
	ops := make([]Op, 0, n)
	for i := 0; i < n; i++ {
		k := rapid.SampledFrom(keys).Draw(t, "key")
		hi := 9
		if kind == "subs" {
			hi = 11
		}
		switch x := rapid.IntRange(0, hi).Draw(t, "op"); {
		case x < 4:
			v := fmt.Sprintf("v%d", rapid.IntRange(1, 3).Draw(t, "val"))
			if big && rapid.IntRange(0, 2).Draw(t, "bigVal") == 0 {
				v = "big:" + v // stands for a value of 700 KiB (expanded by the interpreter)
			}
			ops = append(ops, Op{"ins", k, v})
		case x < 8:
			ops = append(ops, Op{"rm", k, ""})
		case x < 10:
			ops = append(ops, Op{Op: rapid.SampledFrom([]string{"rt", "rt", "snap", "back", "back"}).Draw(t, "image")})
		default:
			ops = append(ops, Op{"app", k, fmt.Sprintf("+%d", rapid.IntRange(1, 3).Draw(t, "val"))})
		}
	}
	return Case{Store: kind, Keys: keys, Ops: ops}
}

// TestRandom: longer sequences (1–12 steps) over generated key sets: deeper prefixes,
// siblings, empty levels, multi-byte levels.
func TestRandom(t *testing.T) {
	rapid.Check(t, func(t *rapid.T) {
		check(t, genCase(t))
	})
}

func allUTF8(keys []string) bool {
	for _, k := range keys {
		if !utf8.ValidString(k) {
			return false
		}
	}
	return true
}
