package c03

// A transient write fault is neither an acknowledgement nor the end of a session.
//
// A delivery (QoS 1 PUBLISH, or the PUBREL of a QoS 2 delivery) is left unanswered; one of its
// retransmissions fails in Write (nothing arrives) while the connection stays usable and the
// session registered. The exchange is still open: at the next deadline the same packet with the
// same identifier is sent again; once the client answers, nothing further is sent and the
// identifier is free.

import (
	"encoding/json"
	"fmt"
	"testing"
	"time"

	"github.com/vx-labs/wasp/v4/wasp"
	"pgregory.net/rapid"
	"verifharness/internal/ev"
	"verifharness/internal/sim"
)

type WriteFaultCase struct {
	QoS        int  `json:"qos"`
	InRelPhase bool `json:"in_rel_phase"` // QoS 2: the fault hits a retransmission of the PUBREL
	OKBefore   int  `json:"ok_before"`    // successful retransmissions before the faulty one
	Faults     int  `json:"faults"`       // consecutive sweeps whose write fails
}

func runWriteFault(c WriteFaultCase) *failure {
	cl, err := sim.NewCluster()
	if err != nil {
		return &failure{err.Error(), true}
	}
	defer cl.Close()
	n, err := cl.AddNode(sim.NodeOpts{})
	if err != nil {
		return &failure{err.Error(), true}
	}
	settle := func() *failure {
		if err := cl.Settle(); err != nil {
			return &failure{err.Error(), true}
		}
		return nil
	}
	sub := cl.NewClient("wsub")
	sub.AutoAck = false
	sub.AttachTo(n)
	sub.Send(sim.EncConnect(sim.ConnectOpts{ClientID: "wsub", KeepAlive: 6000}))
	sub.Send(sim.EncSubscribe(1, []string{"wf/#"}, []byte{byte(c.QoS)}))
	pub := cl.NewClient("wpub")
	pub.AttachTo(n)
	pub.Send(sim.EncConnect(sim.ConnectOpts{ClientID: "wpub", KeepAlive: 6000}))
	if f := settle(); f != nil {
		return f
	}
	pub.Send(sim.EncPublish("wf/x", []byte("payload"), byte(c.QoS), false, false, 21000))
	if f := settle(); f != nil {
		return f
	}
	ps := sub.Publishes()
	if len(ps) != 1 || int(ps[0].QoS) != c.QoS {
		return &failure{fmt.Sprintf("first transmission: received %v", sub.Rx), true}
	}
	id := ps[0].ID
	wantType := byte(sim.PUBLISH)
	if c.QoS == 2 && c.InRelPhase {
		sub.Send(sim.EncAck(sim.PUBREC, id))
		if f := settle(); f != nil {
			return f
		}
		if !sub.Has(sim.PUBREL, id) {
			return &failure{"PUBREC was not answered by PUBREL", false}
		}
		wantType = sim.PUBREL
	}
	count := func() int {
		k := 0
		for _, p := range sub.Rx {
			if p.Type == wantType && p.ID == id {
				k++
			}
		}
		return k
	}
	sweep := func() *failure {
		n.Acks.Sweep(time.Now().Add(time.Hour))
		return settle()
	}
	for i := 0; i < c.OKBefore; i++ {
		before := count()
		if f := sweep(); f != nil {
			return f
		}
		if count() != before+1 {
			return &failure{fmt.Sprintf("deadline %d passed unanswered: %d retransmissions of packet type %s id %d, want 1", i+1, count()-before, sim.TypeName(wantType), id), false}
		}
	}
	for i := 0; i < c.Faults; i++ {
		before := count()
		sub.Conn.FailNextWrites(1)
		if f := sweep(); f != nil {
			return f
		}
		sub.Conn.FailNextWrites(0)
		if count() != before {
			return &failure{"harness: the write that was made to fail delivered something", true}
		}
		if sub.Conn.State().BrokerClosed {
			// the broker may give up on a connection whose write failed; then the session has ended
			// and nothing more is due
			return nil
		}
	}
	before := count()
	if f := sweep(); f != nil {
		return f
	}
	if count() != before+1 {
		return &failure{fmt.Sprintf("after %d successful and %d failed retransmission write(s) the exchange (%s id %d) is still unanswered and the session connected; the next deadline passed and %d copies were sent, want 1", c.OKBefore, c.Faults, sim.TypeName(wantType), id, count()-before), false}
	}
	// the client completes the exchange
	switch {
	case c.QoS == 1:
		sub.Send(sim.EncAck(sim.PUBACK, id))
	case wantType == sim.PUBREL:
		sub.Send(sim.EncAck(sim.PUBCOMP, id))
	default:
		sub.Send(sim.EncAck(sim.PUBREC, id))
		if f := settle(); f != nil {
			return f
		}
		sub.Send(sim.EncAck(sim.PUBCOMP, id))
	}
	if f := settle(); f != nil {
		return f
	}
	rx := len(sub.Rx)
	if f := sweep(); f != nil {
		return f
	}
	if len(sub.Rx) != rx {
		return &failure{fmt.Sprintf("after the exchange was completed the next deadline brought %v", sub.Rx[rx:]), false}
	}
	pool := wasp.VerifWriterMIDPool(n.Writer)
	free := make([]bool, 65536)
	for i := 0; i < 65540; i++ {
		v := pool.Get()
		if v < 0 || v > 65535 {
			break
		}
		free[v] = true
	}
	if !free[int(id)] {
		return &failure{fmt.Sprintf("packet identifier %d was not released after its exchange was completed", id), false}
	}
	return nil
}

func checkWriteFault(t ev.TB, c WriteFaultCase) {
	ev.WriteCurrent("transient-write-fault", c)
	f := runWriteFault(c)
	if f != nil && !f.inconclusive {
		if f2 := runWriteFault(c); f2 == nil || f2.inconclusive {
			ev.Count("unconfirmed_failures", 1)
			f = nil
		}
	}
	ev.Case(c.Faults > 0, c, "transient-write-fault")
	if f != nil && f.inconclusive {
		ev.Inconclusive(t, f.msg)
		return
	}
	if f != nil {
		ev.Fail(t, "transient-write-fault", c, "%s", f.msg)
	}
}

func init() {
	kinds["transient-write-fault"] = func(t ev.TB, raw json.RawMessage) {
		var c WriteFaultCase
		ev.Decode(t, raw, &c)
		checkWriteFault(t, c)
	}
}

func TestTransientWriteFault(t *testing.T) {
	rapid.Check(t, func(t *rapid.T) {
		c := WriteFaultCase{QoS: rapid.IntRange(1, 2).Draw(t, "qos"), OKBefore: rapid.IntRange(0, 2).Draw(t, "okBefore"), Faults: rapid.IntRange(0, 3).Draw(t, "faults")}
		c.InRelPhase = c.QoS == 2 && rapid.Bool().Draw(t, "inRelPhase")
		checkWriteFault(t, c)
	})
}
