// C03 — unacknowledged QoS 1/2 deliveries are retransmitted until completed.
//
// One in-process node; 1–3 subscriber sessions whose acknowledgements are scripted; a
// publisher feeds deliveries. The in-flight table sits behind the harness wrapper, so the
// case decides when a sweep happens: "early" (before every pending deadline: nothing may be
// re-sent) or "late" (after every pending deadline: everything pending must be re-sent once).
package c03

import (
	"encoding/json"
	"fmt"
	"hash/fnv"
	"strings"
	"testing"
	"time"

	"github.com/vx-labs/wasp/v4/wasp"
	"pgregory.net/rapid"
	"verifharness/internal/ev"
	"verifharness/internal/sim"
)

func TestMain(m *testing.M) { ev.Main(m, "C03") }

type Step struct {
	Op   string `json:"op"`   // send | ack | early | near | late | end | pub2 | hold2 | rel2 | vanish | crossack
	S    int    `json:"s"`    // subscriber index (ack, end)
	K    int    `json:"k"`    // ack, pub2: index into that subscriber's in-flight list (mod len); -1 = an identifier that is not in flight
	Type string `json:"type"` // ack: puback pubrec pubrel pubcomp
}

type Case struct {
	// one subscriber per entry, subscribed to "t/#" with that requested QoS: 1 or 2 (judged in
	// full), 0 (one QoS 0 copy, nothing in flight) or 3 (not a QoS: what such a subscriber is
	// sent is not judged, but it must not cost the others anything, identifiers included)
	SubQoS []int `json:"sub_qos"`
	// IDBase: so many packet identifiers are taken out of the writer's allocator before the
	// script starts (and handed back before the final read-out): the deliveries then carry
	// identifiers from IDBase+1 on — the edges of narrower encodings (127/128, 255/256,
	// 32767/32768), the UTF-16 surrogate band (55296..57343) and the top of the range
	IDBase int `json:"id_base,omitempty"`
	// RL: when not 0, every message is padded so that the PUBLISH packet written to a QoS 1/2
	// subscriber has exactly this "remaining length" (topic t/x: 2+3+2+payload) — the edges of
	// the 1/2/3-byte length encodings
	RL    int    `json:"rl,omitempty"`
	Steps []Step `json:"steps"`
}

type failure struct {
	msg          string
	inconclusive bool
}

type flight struct {
	id      uint16
	payload string
	qos     byte
	phase   string // puback | pubrec | pubcomp  (what the broker waits for)
}

// short abbreviates a long payload for messages and map keys; the digest keeps two different
// long payloads apart.
func short(s string) string {
	if len(s) <= 48 {
		return s
	}
	h := fnv.New32a()
	h.Write([]byte(s))
	return fmt.Sprintf("%s…(%d bytes, fnv %08x)", s[:16], len(s), h.Sum32())
}

var ackTypes = map[string]byte{"puback": sim.PUBACK, "pubrec": sim.PUBREC, "pubrel": sim.PUBREL, "pubcomp": sim.PUBCOMP}

func run(c Case) (f *failure, nontrivial bool) {
	cl, err := sim.NewCluster()
	if err != nil {
		return &failure{err.Error(), true}, false
	}
	defer cl.Close()
	n, err := cl.AddNode(sim.NodeOpts{})
	if err != nil {
		return &failure{err.Error(), true}, false
	}
	settle := func() *failure {
		if err := cl.Settle(); err != nil {
			return &failure{err.Error(), true}
		}
		return nil
	}
	pub := cl.NewClient("pub")
	pub.AttachTo(n)
	pub.Send(sim.EncConnect(sim.ConnectOpts{ClientID: "pub", KeepAlive: 6000}))
	var subs []*sim.Client
	for i, q := range c.SubQoS {
		k := cl.NewClient(fmt.Sprintf("sub%d", i))
		k.AutoAck = false
		k.AttachTo(n)
		k.Send(sim.EncConnect(sim.ConnectOpts{ClientID: k.Name, KeepAlive: 6000}))
		k.Send(sim.EncSubscribe(1, []string{"t/#"}, []byte{byte(q)}))
		subs = append(subs, k)
	}
	if f := settle(); f != nil {
		return f, false
	}
	var heldIDs []int32
	if c.IDBase > 0 {
		pool := wasp.VerifWriterMIDPool(n.Writer)
		for i := 0; i < c.IDBase; i++ {
			heldIDs = append(heldIDs, pool.Get())
		}
	}
	inflight := make([][]*flight, len(subs))
	heldIn := make([]map[uint16]bool, len(subs)) // the subscribers' own QoS 2 publishes awaiting their PUBREL
	ended := make([]bool, len(subs))
	vanishing := make([]bool, len(subs))
	seenRx := make([]int, len(subs))
	for i, k := range subs {
		seenRx[i] = len(k.Rx)
	}
	// fresh returns the packets subscriber i received since the last call
	fresh := func(i int) []sim.Packet {
		k := subs[i]
		k.Pump()
		out := k.Rx[seenRx[i]:]
		seenRx[i] = len(k.Rx)
		return out
	}
	invalid := func(i int) bool { return c.SubQoS[i] > 2 }
	expectNothing := func(si int, what string) *failure {
		for i := range subs {
			if got := fresh(i); len(got) != 0 && !invalid(i) {
				return &failure{fmt.Sprintf("step %d (%s): sub%d received %v, expected nothing", si, what, i, got), false}
			}
		}
		return nil
	}
	allIDs := func() map[uint16]bool {
		m := map[uint16]bool{}
		for i := range inflight {
			for _, fl := range inflight[i] {
				m[fl.id] = true
			}
		}
		return m
	}
	retransmissions, sawRel, sawWrong := 0, false, false
	sends := 0
	for si, st := range c.Steps {
		if st.Op == "vanish" {
			// subscriber S loses its connection exactly while the next delivery is being written to
			// it: the write starts, the client side closes, the broker's serve loop notices and
			// takes the session out of the registry, and only then does the write fail. The step
			// arms that and performs the send that triggers it.
			if st.S < len(subs) && !ended[st.S] {
				k := subs[st.S]
				sid := n.Local.SessionOf(k.Conn)
				k.Conn.OnNextWrite(func() {
					k.Conn.ClientClose()
					for until := time.Now().Add(2 * time.Second); time.Now().Before(until) && n.Local.Get(sid) != nil; {
						time.Sleep(50 * time.Microsecond)
					}
				})
				vanishing[st.S] = true
				sawWrong = true
			}
			st.Op = "send"
		}
		crossed := -1
		var crossedWas string
		if st.Op == "crossack" {
			// subscriber S's answer to the copy it holds crosses the retransmission on the wire: the
			// broker processes the acknowledgement while the next copy is being written. The exchange
			// was registered again before that write began, so the acknowledgement counts. Only when
			// S has exactly one open exchange (the next write to it is that retransmission).
			st.Op = "late"
			if st.S < len(subs) && !ended[st.S] && !invalid(st.S) && len(inflight[st.S]) == 1 && len(heldIn[st.S]) == 0 {
				k, fl := subs[st.S], inflight[st.S][0]
				crossed, crossedWas = st.S, fl.phase
				typ := ackTypes[fl.phase]
				id := fl.id
				k.Conn.OnNextWrite(func() {
					k.Send(sim.EncAck(typ, id))
					for until := time.Now().Add(2 * time.Second); time.Now().Before(until); {
						if cs := k.Conn.State(); cs.Pending == 0 && cs.Parked {
							break
						}
						time.Sleep(50 * time.Microsecond)
					}
				})
				sawWrong = true
			}
		}
		switch st.Op {
		case "send":
			sends++
			payload := fmt.Sprintf("m%d", sends)
			if c.RL > 7+len(payload) {
				payload += strings.Repeat("-", c.RL-7-len(payload))
			}
			used := allIDs()
			pub.Send(sim.EncPublish("t/x", []byte(payload), 1, false, false, uint16(30000+sends)))
			if f := settle(); f != nil {
				return f, nontrivial
			}
			for i := range subs {
				got := fresh(i)
				if vanishing[i] && !ended[i] {
					// the delivery that was being written when the connection died is lost with it
					vanishing[i] = false
					ended[i] = true
					inflight[i] = nil
					continue
				}
				if ended[i] {
					if len(got) != 0 {
						return &failure{fmt.Sprintf("step %d: ended sub%d received %v", si, i, got), false}, nontrivial
					}
					continue
				}
				if invalid(i) {
					continue
				}
				if c.SubQoS[i] == 0 {
					if len(got) != 1 || got[0].Type != sim.PUBLISH || got[0].Payload != payload || got[0].Topic != "t/x" || got[0].QoS != 0 {
						return &failure{fmt.Sprintf("step %d (send %s): sub%d received %v, want exactly one PUBLISH t/x=%s at QoS 0", si, short(payload), i, got, short(payload)), false}, nontrivial
					}
					continue
				}
				if len(got) != 1 || got[0].Type != sim.PUBLISH || got[0].Payload != payload || got[0].Topic != "t/x" || int(got[0].QoS) != c.SubQoS[i] {
					return &failure{fmt.Sprintf("step %d (send %s): sub%d received %v, want exactly one PUBLISH t/x=%s at QoS %d", si, short(payload), i, got, short(payload), c.SubQoS[i]), false}, nontrivial
				}
				if got[0].ID == 0 || used[got[0].ID] {
					return &failure{fmt.Sprintf("step %d: delivery to sub%d uses packet identifier %d which is 0 or still in flight", si, i, got[0].ID), false}, nontrivial
				}
				used[got[0].ID] = true
				ph := "puback"
				if c.SubQoS[i] == 2 {
					ph = "pubrec"
				}
				inflight[i] = append(inflight[i], &flight{got[0].ID, payload, byte(c.SubQoS[i]), ph})
			}
		case "ack":
			if st.S >= len(subs) || ended[st.S] {
				continue
			}
			typ := ackTypes[st.Type]
			var fl *flight
			id := uint16(40000 + si) // not in flight
			if st.K >= 0 && len(inflight[st.S]) > 0 {
				fl = inflight[st.S][st.K%len(inflight[st.S])]
				id = fl.id
			}
			subs[st.S].Send(sim.EncAck(typ, id))
			if f := settle(); f != nil {
				return f, nontrivial
			}
			switch {
			case st.Type == "pubrel" && heldIn[st.S][id]:
				// PUBREL completes an exchange started by the client: the number also names a
				// delivery in flight, which it leaves alone
				delete(heldIn[st.S], id)
				got := fresh(st.S)
				if len(got) != 1 || got[0].Type != sim.PUBCOMP || got[0].ID != id {
					return &failure{fmt.Sprintf("step %d: PUBREL %d for the subscriber's own held QoS 2 publish: received %v, want one PUBCOMP", si, id, got), false}, nontrivial
				}
			case fl != nil && fl.phase == st.Type && st.Type == "pubrec":
				got := fresh(st.S)
				if len(got) != 1 || got[0].Type != sim.PUBREL || got[0].ID != fl.id {
					return &failure{fmt.Sprintf("step %d: PUBREC for id %d answered by %v, want exactly one PUBREL with that id", si, fl.id, got), false}, nontrivial
				}
				fl.phase = "pubcomp"
				sawRel = true
			case fl != nil && fl.phase == st.Type:
				// completes the exchange
				var rest []*flight
				for _, x := range inflight[st.S] {
					if x != fl {
						rest = append(rest, x)
					}
				}
				inflight[st.S] = rest
			default:
				sawWrong = true // wrong type for that exchange, or unknown identifier: no effect
			}
			if f := expectNothing(si, "ack "+st.Type); f != nil {
				return f, nontrivial
			}
		case "early", "late":
			now := time.Now().Add(-time.Hour)
			if st.Op == "late" {
				now = time.Now().Add(time.Hour)
			}
			n.Acks.Sweep(now)
			if f := settle(); f != nil {
				return f, nontrivial
			}
			if st.Op == "late" {
				for i := range heldIn {
					heldIn[i] = nil // the broker gives up on exchanges whose PUBREL is overdue
				}
			}
			if st.Op == "early" {
				if f := expectNothing(si, "sweep before the deadlines"); f != nil {
					return f, nontrivial
				}
				continue
			}
			for i := range subs {
				got := fresh(i)
				if ended[i] {
					if len(got) != 0 {
						return &failure{fmt.Sprintf("step %d: sweep re-sent %v to ended sub%d", si, got, i), false}, nontrivial
					}
					continue
				}
				if invalid(i) {
					continue
				}
				want := map[string]int{}
				for _, fl := range inflight[i] {
					if fl.phase == "pubcomp" {
						want[fmt.Sprintf("PUBREL id%d", fl.id)]++
					} else {
						want[fmt.Sprintf("PUBLISH id%d q%d t/x=%s", fl.id, fl.qos, short(fl.payload))]++
					}
					if i == crossed && crossedWas == "pubrec" {
						want[fmt.Sprintf("PUBREL id%d", fl.id)]++ // the answer to the PUBREC that crossed
					}
				}
				if i == crossed {
					// the acknowledgement was processed while the copy was on its way: it counts
					if crossedWas == "pubrec" {
						inflight[i][0].phase = "pubcomp"
					} else {
						inflight[i] = nil
					}
				}
				have := map[string]int{}
				for _, p := range got {
					if p.Type == sim.PUBREL {
						have[fmt.Sprintf("PUBREL id%d", p.ID)]++
					} else {
						have[fmt.Sprintf("%s id%d q%d %s=%s", sim.TypeName(p.Type), p.ID, p.QoS, p.Topic, short(p.Payload))]++
					}
				}
				if fmt.Sprint(want) != fmt.Sprint(have) {
					cross := ""
					if i == crossed {
						cross = fmt.Sprintf("; its %s crossed the retransmission and was processed while the copy was being written", crossedWas)
					}
					return &failure{fmt.Sprintf("step %d (sweep after the deadlines): sub%d was re-sent %v, want %v (one copy of every exchange still open%s)", si, i, have, want, cross), false}, nontrivial
				}
				retransmissions += len(got)
			}
		case "near":
			// a sweep 200 ms before the earliest pending deadline: "to the second" allows either
			// outcome for each open exchange, but never more than one copy, never a foreign
			// packet, and whatever is not re-sent now must be re-sent by the next late sweep
			var earliest time.Time
			for i := range subs {
				if ended[i] {
					continue
				}
				sid := n.Local.SessionOf(subs[i].Conn)
				for _, fl := range inflight[i] {
					if d, ok := n.Acks.Deadline(sid, fl.id); ok && (earliest.IsZero() || d.Before(earliest)) {
						earliest = d
					}
				}
			}
			if earliest.IsZero() {
				continue
			}
			n.Acks.Sweep(earliest.Add(-200 * time.Millisecond))
			if f := settle(); f != nil {
				return f, nontrivial
			}
			for i := range subs {
				got := fresh(i)
				if ended[i] {
					if len(got) != 0 {
						return &failure{fmt.Sprintf("step %d: sweep re-sent %v to ended sub%d", si, got, i), false}, nontrivial
					}
					continue
				}
				if invalid(i) {
					continue
				}
				allowed := map[string]int{}
				for _, fl := range inflight[i] {
					if fl.phase == "pubcomp" {
						allowed[fmt.Sprintf("PUBREL id%d", fl.id)]++
					} else {
						allowed[fmt.Sprintf("PUBLISH id%d q%d t/x=%s", fl.id, fl.qos, short(fl.payload))]++
					}
				}
				for _, p := range got {
					k := fmt.Sprintf("%s id%d q%d %s=%s", sim.TypeName(p.Type), p.ID, p.QoS, p.Topic, short(p.Payload))
					if p.Type == sim.PUBREL {
						k = fmt.Sprintf("PUBREL id%d", p.ID)
					}
					if allowed[k] == 0 {
						return &failure{fmt.Sprintf("step %d (sweep just before the deadlines): sub%d was sent %s, which is not a single copy of an open exchange", si, i, k), false}, nontrivial
					}
					allowed[k]--
					retransmissions++
				}
			}
		case "pub2":
			// the subscriber publishes a QoS 2 message of its own (to a topic nobody listens to)
			// whose packet identifier is one the broker is using towards it: client-chosen and
			// broker-chosen identifiers are independent in MQTT. The broker may serve both
			// exchanges or end the session; it must not forget the delivery that is in flight.
			if st.S >= len(subs) || ended[st.S] || invalid(st.S) {
				continue
			}
			id := uint16(50000 + si)
			collides := false
			if st.K >= 0 && len(inflight[st.S]) > 0 {
				id = inflight[st.S][st.K%len(inflight[st.S])].id
				collides = true
			}
			k := subs[st.S]
			k.Send(sim.EncPublish("other/x", []byte("up"), 2, false, false, id))
			if f := settle(); f != nil {
				return f, nontrivial
			}
			if k.Conn.State().BrokerClosed {
				if !collides {
					return &failure{fmt.Sprintf("step %d: sub%d published at QoS 2 with the unused identifier %d and the broker closed the connection", si, st.S, id), false}, nontrivial
				}
				fresh(st.S)
				ended[st.S] = true
				inflight[st.S] = nil
				sawWrong = true
				break
			}
			got := fresh(st.S)
			if len(got) != 1 || got[0].Type != sim.PUBREC || got[0].ID != id {
				return &failure{fmt.Sprintf("step %d: sub%d published at QoS 2 with identifier %d (in use by a delivery: %v): received %v, want one PUBREC %d (or the session ended)", si, st.S, id, collides, got, id), false}, nontrivial
			}
			k.Send(sim.EncAck(sim.PUBREL, id))
			if f := settle(); f != nil {
				return f, nontrivial
			}
			got = fresh(st.S)
			if len(got) != 1 || got[0].Type != sim.PUBCOMP || got[0].ID != id {
				return &failure{fmt.Sprintf("step %d: sub%d released its QoS 2 publish %d: received %v, want one PUBCOMP %d", si, st.S, id, got, id), false}, nontrivial
			}
			if collides {
				sawWrong = true
			}
		case "hold2":
			// the subscriber starts a QoS 2 publish of its own with a small packet identifier
			// (K+1) that no delivery to it is using, and keeps the PUBREL back: identifiers chosen
			// by the client and by the broker are independent, so the broker's next deliveries to
			// this session may well carry the same number and must go through all the same
			if st.S >= len(subs) || ended[st.S] || invalid(st.S) {
				continue
			}
			id := uint16(st.K%4 + 1)
			busy := heldIn[st.S][id]
			for _, fl := range inflight[st.S] {
				if fl.id == id {
					busy = true
				}
			}
			if busy {
				continue
			}
			subs[st.S].Send(sim.EncPublish("other/y", []byte("held"), 2, false, false, id))
			if f := settle(); f != nil {
				return f, nontrivial
			}
			got := fresh(st.S)
			if len(got) != 1 || got[0].Type != sim.PUBREC || got[0].ID != id {
				return &failure{fmt.Sprintf("step %d: sub%d published at QoS 2 with the unused identifier %d: received %v, want one PUBREC %d", si, st.S, id, got, id), false}, nontrivial
			}
			if heldIn[st.S] == nil {
				heldIn[st.S] = map[uint16]bool{}
			}
			heldIn[st.S][id] = true
			sawWrong = true
		case "rel2":
			if st.S >= len(subs) || ended[st.S] || invalid(st.S) {
				continue
			}
			id := uint16(st.K%4 + 1)
			if !heldIn[st.S][id] {
				continue
			}
			delete(heldIn[st.S], id)
			subs[st.S].Send(sim.EncAck(sim.PUBREL, id))
			if f := settle(); f != nil {
				return f, nontrivial
			}
			got := fresh(st.S)
			if len(got) != 1 || got[0].Type != sim.PUBCOMP || got[0].ID != id {
				return &failure{fmt.Sprintf("step %d: sub%d released its own QoS 2 publish %d: received %v, want one PUBCOMP %d", si, st.S, id, got, id), false}, nontrivial
			}
		case "end":
			if st.S >= len(subs) || ended[st.S] {
				continue
			}
			subs[st.S].Close()
			ended[st.S] = true
			inflight[st.S] = nil
			if f := settle(); f != nil {
				return f, nontrivial
			}
		}
		nontrivial = retransmissions > 0 && (sawRel || sawWrong)
	}
	// identifiers: end every session, let every pending entry expire, then read the allocator
	// out: every identifier 1..65535 must be available again
	for i, k := range subs {
		if !ended[i] {
			k.Close()
			ended[i] = true
		}
	}
	if f := settle(); f != nil {
		return f, nontrivial
	}
	n.Acks.SweepAll()
	if f := settle(); f != nil {
		return f, nontrivial
	}
	for i := range subs {
		if got := fresh(i); len(got) != 0 {
			return &failure{fmt.Sprintf("end: ended sub%d was sent %v", i, got), false}, nontrivial
		}
	}
	pool := wasp.VerifWriterMIDPool(n.Writer)
	for _, id := range heldIDs {
		pool.Put(id)
	}
	free := make([]bool, 65536)
	for i := 0; i < 65540; i++ {
		v := pool.Get()
		if v < 0 || v > 65535 {
			break
		}
		if free[v] {
			return &failure{fmt.Sprintf("end: the writer's allocator handed out identifier %d twice", v), false}, nontrivial
		}
		free[v] = true
	}
	for id := 1; id <= 65535; id++ {
		if !free[id] {
			return &failure{fmt.Sprintf("end: packet identifier %d was never released (all exchanges are complete or their sessions ended)", id), false}, nontrivial
		}
	}
	return nil, nontrivial
}

func check(t ev.TB, c Case, labels ...string) {
	ev.WriteCurrent("retransmit", c)
	f, nt := run(c)
	if f != nil && !f.inconclusive {
		again := 0
		for i := 0; i < 2 && again == 0; i++ {
			if f2, _ := run(c); f2 != nil && !f2.inconclusive {
				again++
			}
		}
		if again == 0 {
			ev.Count("unconfirmed_failures", 1)
			f = nil
		}
	}
	ev.Case(nt, c, labels...)
	if f != nil && f.inconclusive {
		ev.Inconclusive(t, f.msg)
		return
	}
	if f != nil {
		ev.Fail(t, "retransmit", c, "%s", f.msg)
	}
}

var kinds = ev.Kinds{"retransmit": func(t ev.TB, raw json.RawMessage) {
	var c Case
	ev.Decode(t, raw, &c)
	check(t, c, "replay")
}}

func TestReplayFile(t *testing.T) { ev.ReplayFile(t, kinds) }
func TestRegress(t *testing.T)    { ev.Regress(t, kinds, "testdata/regress") }

func TestRandom(t *testing.T) {
	rapid.Check(t, func(t *rapid.T) {
		c := Case{}
		ns := rapid.IntRange(1, 3).Draw(t, "subs")
		for i := 0; i < ns; i++ {
			c.SubQoS = append(c.SubQoS, rapid.SampledFrom([]int{1, 2, 1, 2, 1, 2, 1, 2, 0, 3}).Draw(t, "subqos"))
		}
		c.IDBase = rapid.SampledFrom([]int{0, 0, 0, 0, 125, 253, 32765, 55293, 57340, 65300}).Draw(t, "idBase")
		c.RL = rapid.SampledFrom([]int{0, 0, 0, 0, 0, 127, 128, 129, 16383, 16384, 16384, 16385}).Draw(t, "remainingLength")
		n := rapid.IntRange(3, 24).Draw(t, "steps")
		c.Steps = append(c.Steps, Step{Op: "send"})
		for i := 0; i < n; i++ {
			switch x := rapid.IntRange(0, 19).Draw(t, "op"); {
			case x < 5:
				c.Steps = append(c.Steps, Step{Op: "send"})
			case x < 13:
				k := rapid.IntRange(0, 5).Draw(t, "k")
				if rapid.IntRange(0, 7).Draw(t, "unknownId") == 0 {
					k = -1
				}
				c.Steps = append(c.Steps, Step{Op: "ack", S: rapid.IntRange(0, ns-1).Draw(t, "s"), K: k,
					Type: rapid.SampledFrom([]string{"puback", "puback", "pubrec", "pubrec", "pubcomp", "pubcomp", "pubrel"}).Draw(t, "type")})
			case x < 15:
				c.Steps = append(c.Steps, Step{Op: "late"})
			case x < 16:
				c.Steps = append(c.Steps, Step{Op: "near"})
			case x < 17:
				c.Steps = append(c.Steps, Step{Op: "early"})
			case x < 19:
				k := rapid.IntRange(0, 5).Draw(t, "k")
				if rapid.IntRange(0, 3).Draw(t, "unusedId") == 0 {
					k = -1
				}
				op := rapid.SampledFrom([]string{"pub2", "hold2", "hold2", "rel2", "vanish", "crossack", "crossack"}).Draw(t, "inbound")
				if op != "pub2" && k < 0 {
					k = 0
				}
				c.Steps = append(c.Steps, Step{Op: op, S: rapid.IntRange(0, ns-1).Draw(t, "s"), K: k})
			default:
				c.Steps = append(c.Steps, Step{Op: "end", S: rapid.IntRange(0, ns-1).Draw(t, "s")})
			}
		}
		check(t, c)
	})
}

// TestTickerWiring: the broker's own 1 s ticker drives the sweep (real time): an
// unacknowledged QoS 1 delivery must show up again without the harness sweeping.
func TestTickerWiring(t *testing.T) {
	cl, err := sim.NewCluster()
	if err != nil {
		t.Fatalf("VERIF-INCONCLUSIVE %v", err)
	}
	defer cl.Close()
	n, err := cl.AddNode(sim.NodeOpts{})
	if err != nil {
		t.Fatalf("VERIF-INCONCLUSIVE %v", err)
	}
	n.Acks.ForwardTicker(true)
	sub := cl.NewClient("sub")
	sub.AutoAck = false
	sub.AttachTo(n)
	sub.Send(sim.EncConnect(sim.ConnectOpts{ClientID: "sub", KeepAlive: 6000}))
	sub.Send(sim.EncSubscribe(1, []string{"t"}, []byte{1}))
	pub := cl.NewClient("pub")
	pub.AttachTo(n)
	pub.Send(sim.EncConnect(sim.ConnectOpts{ClientID: "pub", KeepAlive: 6000}))
	if err := cl.Settle(); err != nil {
		t.Fatalf("VERIF-INCONCLUSIVE %v", err)
	}
	pub.Send(sim.EncPublish("t", []byte("x"), 0, false, false, 0))
	if err := cl.Settle(); err != nil {
		t.Fatalf("VERIF-INCONCLUSIVE %v", err)
	}
	c := map[string]string{"scenario": "unacknowledged QoS 1 delivery, broker's own ticker sweeps"}
	ev.Case(true, c, "ticker-wiring")
	if len(sub.Publishes()) != 1 {
		ev.Fail(t, "ticker-wiring", c, "expected one delivery, got %v", sub.Publishes())
	}
	deadline := time.Now().Add(30 * time.Second)
	for time.Now().Before(deadline) {
		sub.Pump()
		if len(sub.Publishes()) >= 2 {
			ps := sub.Publishes()
			if ps[1].ID != ps[0].ID || ps[1].Payload != "x" {
				ev.Fail(t, "ticker-wiring", c, "retransmission differs from the original: %v", ps)
			}
			return
		}
		time.Sleep(50 * time.Millisecond)
	}
	ev.Fail(t, "ticker-wiring", c, "no retransmission within 30 s although the acknowledgement deadline is 3 s and the sweep runs every second (ticker sweeps seen: %d)", n.Acks.TickerSweeps())
}

// TestTickerUnderBacklog: retransmission to a healthy session does not depend on the state of
// the delivery loop. A second subscriber stays connected but stops reading while QoS 0 traffic
// for it keeps coming: the writer's single delivery goroutine blocks in the write to it and
// further jobs queue up behind. The broker's own 1 s ticker (forwarded, real time) must still
// make the deadlines of the healthy session's open exchanges pass: the PUBLISH (QoS 1 and 2)
// or the PUBREL (QoS 2 after PUBREC) is sent again while the stall lasts, with the same packet
// identifier. The stalled session has nothing in flight itself (QoS 0), so the sweep has no
// reason to touch its connection.
type backlogCase struct {
	Scenario string `json:"scenario"`
	QoS      byte   `json:"qos"`
	Phase    string `json:"phase"`  // which packet is left unanswered: publish | pubrel
	Queued   int    `json:"queued"` // QoS 0 messages for the stalled subscriber
}

func init() {
	kinds["ticker-backlog"] = func(t ev.TB, raw json.RawMessage) {
		var v backlogCase
		ev.Decode(t, raw, &v)
		runBacklog(t, v)
	}
}

func TestTickerUnderBacklog(t *testing.T) {
	for _, v := range []backlogCase{
		{"backlog", 1, "publish", 3}, {"backlog", 2, "publish", 2}, {"backlog", 2, "pubrel", 4},
	} {
		v := v
		t.Run(fmt.Sprintf("q%d-%s", v.QoS, v.Phase), func(t *testing.T) {
			t.Parallel()
			runBacklog(t, v)
		})
	}
}

func runBacklog(t ev.TB, v backlogCase) {
	{
		{
			cl, err := sim.NewCluster()
			if err != nil {
				t.Fatalf("VERIF-INCONCLUSIVE %v", err)
			}
			defer cl.Close()
			n, err := cl.AddNode(sim.NodeOpts{})
			if err != nil {
				t.Fatalf("VERIF-INCONCLUSIVE %v", err)
			}
			n.Acks.ForwardTicker(true)
			healthy, slow, pub := cl.NewClient("healthy"), cl.NewClient("slow"), cl.NewClient("pub")
			healthy.AutoAck = false
			for _, k := range []*sim.Client{healthy, slow, pub} {
				k.AttachTo(n)
				k.Send(sim.EncConnect(sim.ConnectOpts{ClientID: k.Name, KeepAlive: 6000}))
			}
			healthy.Send(sim.EncSubscribe(1, []string{"t"}, []byte{v.QoS}))
			slow.Send(sim.EncSubscribe(1, []string{"slow/#"}, []byte{0}))
			if err := cl.Settle(); err != nil {
				t.Fatalf("VERIF-INCONCLUSIVE %v", err)
			}
			pub.Send(sim.EncPublish("t", []byte("x"), 1, false, false, 20001))
			if err := cl.Settle(); err != nil {
				t.Fatalf("VERIF-INCONCLUSIVE %v", err)
			}
			ev.Case(true, v, "ticker-backlog")
			first := healthy.Publishes()
			if len(first) != 1 || first[0].QoS != v.QoS {
				ev.Fail(t, "ticker-backlog", v, "expected one delivery at QoS %d, got %v", v.QoS, first)
				return
			}
			id := first[0].ID
			watch := byte(sim.PUBLISH)
			if v.Phase == "pubrel" {
				healthy.Send(sim.EncAck(sim.PUBREC, id))
				if err := cl.Settle(); err != nil {
					t.Fatalf("VERIF-INCONCLUSIVE %v", err)
				}
				watch = sim.PUBREL
				if healthy.Count(sim.PUBREL) != 1 {
					ev.Fail(t, "ticker-backlog", v, "PUBREC answered by %d PUBREL, want 1", healthy.Count(sim.PUBREL))
					return
				}
			}
			base := healthy.Count(watch)
			// the other subscriber stops reading; traffic for it goes on
			slow.Conn.StallWrites(true)
			for i := 0; i < v.Queued; i++ {
				pub.Send(sim.EncPublish("slow/x", []byte(fmt.Sprintf("s%d", i)), 0, false, false, 0))
			}
			for until := time.Now().Add(10 * time.Second); time.Now().Before(until) && !slow.Conn.WriteBlocked(); {
				time.Sleep(time.Millisecond)
			}
			if !slow.Conn.WriteBlocked() {
				t.Fatalf("VERIF-INCONCLUSIVE the write to the stalled subscriber never started")
			}
			seen := 0
			for until := time.Now().Add(25 * time.Second); time.Now().Before(until) && seen < 2; {
				healthy.Pump()
				seen = healthy.Count(watch) - base
				time.Sleep(50 * time.Millisecond)
			}
			sweeps := n.Acks.TickerSweeps()
			slow.Conn.StallWrites(false)
			if seen < 2 {
				ev.Fail(t, "ticker-backlog", v, "an open QoS %d exchange of a healthy session (waiting for the answer to its %s) was sent again %d times in 25 s while another session's connection was stalled; the acknowledgement deadline is 3 s and the sweep runs every second (ticker sweeps seen: %d)", v.QoS, v.Phase, seen, sweeps)
				return
			}
			for _, p := range healthy.Rx {
				if (p.Type == sim.PUBLISH || p.Type == sim.PUBREL) && p.ID != id {
					ev.Fail(t, "ticker-backlog", v, "retransmission with another packet identifier: %v (first delivery had %d)", p, id)
					return
				}
			}
			if err := cl.Settle(); err != nil {
				t.Fatalf("VERIF-INCONCLUSIVE %v", err)
			}
			if got := len(slow.Publishes()); got != v.Queued {
				ev.Fail(t, "ticker-backlog", v, "the stalled subscriber received %d of %d messages once it read again", got, v.Queued)
			}
		}
	}
}
