package c03

// Acknowledgements sent at the moment of receipt.
//
// A subscriber answers every packet the instant it has it - PUBLISH QoS 1 with PUBACK, QoS 2 with
// PUBREC, PUBREL with PUBCOMP - from a hook that runs before the broker's write of that packet
// returns, and the hook waits until the broker has consumed the answer. An exchange is open from
// the moment its packet is on the wire, so every one of these answers completes (or advances) its
// exchange: when afterwards every deadline passes, nothing is sent again, every message was
// received exactly once, and every packet identifier is free again.

import (
	"encoding/json"
	"fmt"
	"sync"
	"testing"
	"time"

	"github.com/vx-labs/wasp/v4/wasp"
	"pgregory.net/rapid"
	"verifharness/internal/ev"
	"verifharness/internal/sim"
)

type FastAckCase struct {
	SubQoS   []int `json:"sub_qos"` // 1-3 subscribers, each 1 or 2
	Messages int   `json:"messages"`
	PubQoS   int   `json:"pub_qos"`
	Burst    bool  `json:"burst"` // all publishes in one write
}

func runFastAck(c FastAckCase) *failure {
	cl, err := sim.NewCluster()
	if err != nil {
		return &failure{err.Error(), true}
	}
	defer cl.Close()
	n, err := cl.AddNode(sim.NodeOpts{})
	if err != nil {
		return &failure{err.Error(), true}
	}
	settle := func() *failure {
		if err := cl.Settle(); err != nil {
			return &failure{err.Error(), true}
		}
		return nil
	}
	var subs []*sim.Client
	for i, q := range c.SubQoS {
		k := cl.NewClient(fmt.Sprintf("fsub%d", i))
		k.AutoAck = false
		k.AttachTo(n)
		k.Send(sim.EncConnect(sim.ConnectOpts{ClientID: k.Name, KeepAlive: 6000}))
		k.Send(sim.EncSubscribe(1, []string{"f/#"}, []byte{byte(q)}))
		subs = append(subs, k)
	}
	pub := cl.NewClient("fpub")
	pub.AttachTo(n)
	pub.Send(sim.EncConnect(sim.ConnectOpts{ClientID: "fpub", KeepAlive: 6000}))
	if f := settle(); f != nil {
		return f
	}
	for _, k := range subs {
		k := k
		var mu sync.Mutex
		var buf []byte
		k.Conn.OnWritten(func(p []byte) bool {
			mu.Lock()
			buf = append(buf, p...)
			pkts, rest, err := sim.Parse(buf)
			if err != nil {
				mu.Unlock()
				return true
			}
			buf = append([]byte{}, rest...)
			mu.Unlock()
			// (the broker may answer an answer - PUBREL after PUBREC - from its reading goroutine,
			// which brings this hook up again while the outer one waits: no lock is held here)
			for _, x := range pkts {
				var ans []byte
				switch {
				case x.Type == sim.PUBLISH && x.QoS == 1:
					ans = sim.EncAck(sim.PUBACK, x.ID)
				case x.Type == sim.PUBLISH && x.QoS == 2:
					ans = sim.EncAck(sim.PUBREC, x.ID)
				case x.Type == sim.PUBREL:
					ans = sim.EncAck(sim.PUBCOMP, x.ID)
				}
				if ans == nil {
					continue
				}
				k.Send(ans)
				if x.Type != sim.PUBLISH {
					// a PUBREL is written by the goroutine that reads this connection: it cannot
					// consume the PUBCOMP before this write returns
					continue
				}
				for until := time.Now().Add(2 * time.Second); time.Now().Before(until); time.Sleep(50 * time.Microsecond) {
					if cs := k.Conn.State(); cs.Pending == 0 {
						break
					}
				}
			}
			return false
		})
	}
	var all []byte
	for i := 1; i <= c.Messages; i++ {
		p := sim.EncPublish("f/x", []byte(fmt.Sprintf("fast-%d", i)), byte(c.PubQoS), false, false, uint16(20000+i))
		if c.Burst {
			all = append(all, p...)
		} else {
			pub.Send(p)
			if f := settle(); f != nil {
				return f
			}
		}
	}
	if c.Burst {
		pub.Send(all)
		if f := settle(); f != nil {
			return f
		}
	}
	snapshot := make([]int, len(subs))
	for i, k := range subs {
		snapshot[i] = len(k.Rx)
	}
	// every deadline passes, twice
	for r := 0; r < 2; r++ {
		n.Acks.Sweep(time.Now().Add(time.Hour))
		if f := settle(); f != nil {
			return f
		}
	}
	for i, k := range subs {
		if len(k.Rx) != snapshot[i] {
			return &failure{fmt.Sprintf("subscriber %d (QoS %d) answered every packet the moment it had it; after all deadlines passed it was sent %v again", i, c.SubQoS[i], k.Rx[snapshot[i]:]), false}
		}
		want := c.SubQoS[i]
		if c.PubQoS < want {
			want = c.PubQoS
		}
		seen := map[string]int{}
		for _, p := range k.Publishes() {
			seen[p.Payload]++
		}
		for m := 1; m <= c.Messages; m++ {
			if got := seen[fmt.Sprintf("fast-%d", m)]; got != 1 {
				return &failure{fmt.Sprintf("subscriber %d (QoS %d) received message %d %d time(s), want once", i, c.SubQoS[i], m, got), false}
			}
		}
	}
	// every identifier of the writer's allocator is free again (the node is not used afterwards)
	pool := wasp.VerifWriterMIDPool(n.Writer)
	free := make([]bool, 65536)
	for i := 0; i < 65540; i++ {
		v := pool.Get()
		if v < 0 || v > 65535 {
			break
		}
		free[v] = true
	}
	for id := 1; id <= 65535; id++ {
		if !free[id] {
			return &failure{fmt.Sprintf("packet identifier %d was never released although every exchange was completed at once", id), false}
		}
	}
	return nil
}

func checkFastAck(t ev.TB, c FastAckCase) {
	ev.WriteCurrent("ack-at-receipt", c)
	f := runFastAck(c)
	if f != nil && !f.inconclusive {
		if f2 := runFastAck(c); f2 == nil || f2.inconclusive {
			ev.Count("unconfirmed_failures", 1)
			f = nil
		}
	}
	nt := false
	for _, q := range c.SubQoS {
		if q == 2 && c.PubQoS == 2 {
			nt = true
		}
	}
	ev.Case(nt, c, "ack-at-receipt")
	if f != nil && f.inconclusive {
		ev.Inconclusive(t, f.msg)
		return
	}
	if f != nil {
		ev.Fail(t, "ack-at-receipt", c, "%s", f.msg)
	}
}

func init() {
	kinds["ack-at-receipt"] = func(t ev.TB, raw json.RawMessage) {
		var c FastAckCase
		ev.Decode(t, raw, &c)
		checkFastAck(t, c)
	}
}

func TestAckAtReceipt(t *testing.T) {
	rapid.Check(t, func(t *rapid.T) {
		c := FastAckCase{Messages: rapid.IntRange(1, 12).Draw(t, "messages"), PubQoS: rapid.IntRange(1, 2).Draw(t, "pubQoS"), Burst: rapid.Bool().Draw(t, "burst")}
		for i, n := 0, rapid.IntRange(1, 3).Draw(t, "subs"); i < n; i++ {
			c.SubQoS = append(c.SubQoS, rapid.IntRange(1, 2).Draw(t, "subQoS"))
		}
		checkFastAck(t, c)
	})
}
