package c13

// A client that falls silent in the middle of a packet.
//
// The dying session (with a will) sends the first bytes of a PUBLISH, SUBSCRIBE or UNSUBSCRIBE -
// anything from the first byte to all but the last - and then nothing, without closing the
// connection. When its keep-alive allowance has passed (virtual clock) the session has ended
// without a DISCONNECT: the will is published once to the watchers (on the same and on another
// node) and retained if asked, the connection is closed, and nothing of the unfinished packet
// has any effect (no payload delivered, no subscription listed).

import (
	"encoding/json"
	"fmt"
	"strings"
	"testing"
	"time"

	"pgregory.net/rapid"
	"verifharness/internal/ev"
	"verifharness/internal/sim"
)

type SilentCase struct {
	Nodes     int    `json:"nodes"`
	KeepAlive int    `json:"keepalive"`
	Packet    string `json:"packet"` // publish0 | publish1 | subscribe | unsubscribe
	Pad       int    `json:"pad"`
	Sent      int    `json:"sent"` // bytes of the packet that arrive (1..len-1, clamped)
	WillQoS   int    `json:"will_qos"`
	Retain    bool   `json:"retain"`
}

func runSilent(c SilentCase) *failure {
	cl, err := sim.NewCluster()
	if err != nil {
		return &failure{err.Error(), true}
	}
	defer cl.Close()
	for i := 0; i < c.Nodes; i++ {
		if _, err := cl.AddNode(sim.NodeOpts{}); err != nil {
			return &failure{err.Error(), true}
		}
	}
	settle := func() *failure {
		if err := cl.Settle(); err != nil {
			return &failure{err.Error(), true}
		}
		return nil
	}
	var watchers []*sim.Client
	for i := 0; i < c.Nodes; i++ {
		k := cl.NewClient(fmt.Sprintf("watch%d", i))
		k.AttachTo(cl.Nodes[i])
		k.Send(sim.EncConnect(sim.ConnectOpts{ClientID: k.Name, KeepAlive: 65535}))
		k.Send(sim.EncSubscribe(1, []string{"w/#", "data/#"}, []byte{1, 1}))
		watchers = append(watchers, k)
	}
	dying := cl.NewClient("dying")
	dying.AttachTo(cl.Nodes[0])
	dying.Send(sim.EncConnect(sim.ConnectOpts{ClientID: "dying", KeepAlive: uint16(c.KeepAlive), WillTopic: "w/last", WillPayload: "last-words", WillQoS: byte(c.WillQoS), WillRetain: c.Retain}))
	if f := settle(); f != nil {
		return f
	}
	if !dying.Accepted {
		return &failure{"the session with the will was not accepted", true}
	}
	pad := make([]byte, c.Pad)
	for i := range pad {
		pad[i] = 'p'
	}
	var pkt []byte
	switch c.Packet {
	case "publish0":
		pkt = sim.EncPublish("data/x", append([]byte("unfinished-"), pad...), 0, false, false, 0)
	case "publish1":
		pkt = sim.EncPublish("data/x", append([]byte("unfinished-"), pad...), 1, true, false, 77)
	case "subscribe":
		pkt = sim.EncSubscribe(5, []string{"w/#", "unfinished/" + string(pad)}, []byte{0, 0})
	default:
		pkt = sim.EncUnsubscribe(5, []string{"unfinished/" + string(pad)})
	}
	k := c.Sent
	if k < 1 {
		k = 1
	}
	if k > len(pkt)-1 {
		k = len(pkt) - 1
	}
	dying.BeginPartial()
	dying.Send(pkt[:k])
	if f := settle(); f != nil {
		return f
	}
	// the allowance passes (twice the keep-alive is the most any reading of the protocol grants)
	cl.Clock.Advance(time.Duration(c.KeepAlive)*2*time.Second + 1500*time.Millisecond)
	if f := settle(); f != nil {
		return f
	}
	for r := 0; r < 5 && cl.DeliverAllGossip() > 0; r++ {
		if f := settle(); f != nil {
			return f
		}
	}
	if !dying.Conn.State().BrokerClosed {
		return &failure{fmt.Sprintf("a client silent for more than twice its keep-alive (%d s) in the middle of a %s (%d of %d bytes sent) is still connected", c.KeepAlive, c.Packet, k, len(pkt)), false}
	}
	for i, w := range watchers {
		wills := 0
		for _, p := range w.Publishes() {
			switch {
			case p.Topic == "w/last" && p.Payload == "last-words":
				wills++
			default:
				return &failure{fmt.Sprintf("watcher on node %d received %q on %q: nobody sent that in full (%d of %d bytes of the %s had arrived)", i, shorten(p.Payload), p.Topic, k, len(pkt), c.Packet), false}
			}
		}
		if wills != 1 {
			return &failure{fmt.Sprintf("the session ended by silence in the middle of a %s (%d of %d bytes); the watcher on node %d received its will %d time(s), want 1", c.Packet, k, len(pkt), i, wills), false}
		}
	}
	for _, n := range cl.Nodes {
		for _, s := range n.State.Subscriptions().All() {
			if strings.Contains(string(s.Pattern), "unfinished/") {
				return &failure{fmt.Sprintf("node %s lists a subscription %q that was never requested in full", n.Name, shorten(string(s.Pattern))), false}
			}
		}
	}
	late := cl.NewClient("late")
	late.AttachTo(cl.Nodes[c.Nodes-1])
	late.Send(sim.EncConnect(sim.ConnectOpts{ClientID: "late", KeepAlive: 65535}))
	late.Send(sim.EncSubscribe(1, []string{"#"}, []byte{0}))
	if f := settle(); f != nil {
		return f
	}
	retained := 0
	for _, p := range late.Publishes() {
		if p.Topic == "w/last" && p.Payload == "last-words" {
			retained++
		} else {
			return &failure{fmt.Sprintf("a late subscriber was sent %q on %q, which nobody published in full", shorten(p.Payload), p.Topic), false}
		}
	}
	want := 0
	if c.Retain {
		want = 1
	}
	if retained != want {
		return &failure{fmt.Sprintf("will retain=%v: a late subscriber was sent the will %d time(s), want %d", c.Retain, retained, want), false}
	}
	return nil
}

func shorten(s string) string {
	if len(s) > 32 {
		return s[:32] + "…"
	}
	return s
}

func checkSilent(t ev.TB, c SilentCase) {
	ev.WriteCurrent("silent-mid-packet", c)
	f := runSilent(c)
	if f != nil && !f.inconclusive {
		if f2 := runSilent(c); f2 == nil || f2.inconclusive {
			ev.Count("unconfirmed_failures", 1)
			f = nil
		}
	}
	ev.Case(true, c, "silent-mid-packet", "packet:"+c.Packet, fmt.Sprintf("nodes:%d", c.Nodes))
	if f != nil && f.inconclusive {
		ev.Inconclusive(t, f.msg)
		return
	}
	if f != nil {
		ev.Fail(t, "silent-mid-packet", c, "%s", f.msg)
	}
}

func init() {
	kinds["silent-mid-packet"] = func(t ev.TB, raw json.RawMessage) {
		var c SilentCase
		ev.Decode(t, raw, &c)
		checkSilent(t, c)
	}
}

func TestSilentMidPacket(t *testing.T) {
	rapid.Check(t, func(t *rapid.T) {
		checkSilent(t, SilentCase{Nodes: rapid.IntRange(1, 2).Draw(t, "nodes"), KeepAlive: rapid.SampledFrom([]int{1, 5, 60, 3600, 20000}).Draw(t, "keepalive"),
			Packet: rapid.SampledFrom([]string{"publish0", "publish1", "subscribe", "unsubscribe"}).Draw(t, "packet"), Pad: rapid.SampledFrom([]int{0, 3, 120, 200, 20000}).Draw(t, "pad"),
			Sent: rapid.SampledFrom([]int{1, 2, 3, 4, 5, 9, 16, 130, 1 << 30}).Draw(t, "sent"), WillQoS: rapid.IntRange(0, 2).Draw(t, "willQoS"), Retain: rapid.Bool().Draw(t, "retain")})
	})
}
