package c13

import (
	"encoding/json"
	"fmt"
	"net"
	"testing"
	"time"

	"github.com/gorilla/websocket"
	"github.com/vx-labs/wasp/v4/wasp/transport"
	"verifharness/internal/ev"
	"verifharness/internal/sim"
)

// TransportCase: the dying session is connected through one of the broker's real listeners
// (TCP or WebSocket on the loopback interface) instead of the harness's in-memory connection,
// because how a connection ends is first seen by the transport adaptor: a WebSocket close
// frame (any status), a dropped TCP connection, or a proper DISCONNECT followed by a close.
// The watcher (in-memory connection, subscribed to the will topic) must receive the will
// exactly once — and not at all after a DISCONNECT.
type TransportCase struct {
	Transport string `json:"transport"` // tcp | ws
	End       string `json:"end"`       // drop | close1000 | close1001 | closenostatus | disconnect
	WillQoS   byte   `json:"will_qos"`
}

func runTransport(c TransportCase) *failure {
	cl, err := sim.NewCluster()
	if err != nil {
		return &failure{err.Error(), true}
	}
	defer cl.Close()
	n, err := cl.AddNode(sim.NodeOpts{})
	if err != nil {
		return &failure{err.Error(), true}
	}
	var ln net.Listener
	if c.Transport == "ws" {
		ln, err = transport.NewWSTransport(n.Ctx(), 0, n.Manager)
	} else {
		ln, err = transport.NewTCPTransport(n.Ctx(), 0, n.Manager)
	}
	if err != nil {
		return &failure{"cannot listen on the loopback interface: " + err.Error(), true}
	}
	defer ln.Close()
	port := ln.Addr().(*net.TCPAddr).Port
	watcher := cl.NewClient("watcher")
	watcher.AttachTo(n)
	watcher.Send(sim.EncConnect(sim.ConnectOpts{ClientID: "watcher", KeepAlive: 6000}))
	watcher.Send(sim.EncSubscribe(1, []string{"w/#"}, []byte{1}))
	if err := cl.Settle(); err != nil {
		return &failure{err.Error(), true}
	}
	connect := sim.EncConnect(sim.ConnectOpts{ClientID: "dying", KeepAlive: 600, WillTopic: "w/last", WillPayload: "last-words", WillQoS: c.WillQoS})
	// the dying client
	var send func([]byte) error
	var readSome func() ([]byte, error)
	var end func()
	if c.Transport == "ws" {
		d := websocket.Dialer{Subprotocols: []string{"mqtt"}, HandshakeTimeout: 5 * time.Second}
		ws, _, err := d.Dial(fmt.Sprintf("ws://127.0.0.1:%d/mqtt", port), nil)
		if err != nil {
			return &failure{"websocket dial: " + err.Error(), true}
		}
		send = func(b []byte) error { return ws.WriteMessage(websocket.BinaryMessage, b) }
		readSome = func() ([]byte, error) {
			ws.SetReadDeadline(time.Now().Add(5 * time.Second))
			_, b, err := ws.ReadMessage()
			return b, err
		}
		end = func() {
			switch c.End {
			case "close1000":
				ws.WriteControl(websocket.CloseMessage, websocket.FormatCloseMessage(websocket.CloseNormalClosure, ""), time.Now().Add(time.Second))
			case "close1001":
				ws.WriteControl(websocket.CloseMessage, websocket.FormatCloseMessage(websocket.CloseGoingAway, "bye"), time.Now().Add(time.Second))
			case "closenostatus":
				ws.WriteControl(websocket.CloseMessage, nil, time.Now().Add(time.Second))
			}
			time.Sleep(50 * time.Millisecond)
			ws.Close()
		}
	} else {
		conn, err := net.DialTimeout("tcp", fmt.Sprintf("127.0.0.1:%d", port), 5*time.Second)
		if err != nil {
			return &failure{"tcp dial: " + err.Error(), true}
		}
		send = func(b []byte) error { _, err := conn.Write(b); return err }
		readSome = func() ([]byte, error) {
			conn.SetReadDeadline(time.Now().Add(5 * time.Second))
			b := make([]byte, 64)
			k, err := conn.Read(b)
			return b[:k], err
		}
		end = func() { conn.Close() }
	}
	if err := send(connect); err != nil {
		return &failure{"sending CONNECT: " + err.Error(), true}
	}
	ack, err := readSome()
	if err != nil || len(ack) < 4 || ack[0] != 0x20 || ack[3] != 0 {
		return &failure{fmt.Sprintf("no CONNACK over %s: %x %v", c.Transport, ack, err), false}
	}
	if c.End == "disconnect" {
		if err := send(sim.EncDisconnect()); err != nil {
			return &failure{"sending DISCONNECT: " + err.Error(), true}
		}
		time.Sleep(50 * time.Millisecond)
	}
	end()
	// real sockets: wait in real time for the will (or for its absence)
	want := 1
	if c.End == "disconnect" {
		want = 0
	}
	count := func() int {
		watcher.Pump()
		k := 0
		for _, p := range watcher.Publishes() {
			if p.Topic == "w/last" && p.Payload == "last-words" {
				k++
			}
		}
		return k
	}
	deadline := time.Now().Add(6 * time.Second)
	for time.Now().Before(deadline) && (count() < want || want == 0 && time.Until(deadline) > 4*time.Second) {
		time.Sleep(20 * time.Millisecond)
	}
	cl.Settle()
	if got := count(); got != want {
		return &failure{fmt.Sprintf("session over %s ended by %q: the watcher received the will %d time(s), want %d", c.Transport, c.End, got, want), false}
	}
	return nil
}

func checkTransport(t ev.TB, c TransportCase) {
	ev.WriteCurrent("will-transport", c)
	f := runTransport(c)
	ev.Case(true, c, "transport:"+c.Transport, "end:"+c.End)
	if f != nil && f.inconclusive {
		ev.Inconclusive(t, f.msg)
		return
	}
	if f != nil {
		ev.Fail(t, "will-transport", c, "%s", f.msg)
	}
}

func init() {
	kinds["will-transport"] = func(t ev.TB, raw json.RawMessage) {
		var c TransportCase
		ev.Decode(t, raw, &c)
		checkTransport(t, c)
	}
}

func TestTransports(t *testing.T) {
	si, sn := ev.Shard()
	i := 0
	for _, q := range []byte{0, 1} {
		for _, c := range []TransportCase{{"ws", "close1000", q}, {"ws", "close1001", q}, {"ws", "closenostatus", q}, {"ws", "drop", q}, {"ws", "disconnect", q}, {"tcp", "drop", q}, {"tcp", "disconnect", q}} {
			i++
			if i%sn != si {
				continue
			}
			checkTransport(t, c)
		}
	}
}
