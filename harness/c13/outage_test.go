package c13

import (
	"encoding/json"
	"fmt"
	"testing"
	"time"

	"verifharness/internal/ev"
	"verifharness/internal/sim"
)

// Wills after an outage of the broker links. A session with a will is accepted by node 1 while
// node 1's broadcasts do not get through; the survivors learn of it only through the periodic
// full-state exchange (push/pull). Then node 1 fails. The will is due: the watcher on a
// surviving node receives it exactly once (and a later subscriber receives a retained will).
// Control: the session said DISCONNECT before the exchange — no will.
type OutageCase struct {
	Nodes      int    `json:"nodes"`
	WillQoS    byte   `json:"will_qos"`
	WillRetain bool   `json:"will_retain"`
	Before     string `json:"before"` // what happens before the exchange: "" | disconnect | sub (the session also subscribes)
	Syncs      int    `json:"syncs"`  // number of full-state exchanges
	LateGossip bool   `json:"late_gossip"`
}

func runOutage(c OutageCase) *failure {
	cl, err := sim.NewCluster()
	if err != nil {
		return &failure{err.Error(), true}
	}
	defer cl.Close()
	cl.AutoGossip = false
	for i := 0; i < c.Nodes; i++ {
		if _, err := cl.AddNode(sim.NodeOpts{}); err != nil {
			return &failure{err.Error(), true}
		}
	}
	settle := func() *failure {
		if err := cl.Settle(); err != nil {
			return &failure{err.Error(), true}
		}
		return nil
	}
	flush := func() *failure {
		for r := 0; r < 4; r++ {
			if f := settle(); f != nil {
				return f
			}
			if cl.DeliverAllGossip() == 0 {
				break
			}
		}
		return settle()
	}
	n1, n2 := cl.Nodes[0], cl.Nodes[1]
	w := cl.NewClient("watcher")
	w.AttachTo(n2)
	w.Send(sim.EncConnect(sim.ConnectOpts{ClientID: "watcher", KeepAlive: 6000}))
	w.Send(sim.EncSubscribe(1, []string{"#"}, []byte{1}))
	if f := flush(); f != nil {
		return f
	}
	// the outage begins: what node 1 broadcasts from now on is lost
	s := cl.NewClient("s")
	s.AttachTo(n1)
	s.Send(sim.EncConnect(sim.ConnectOpts{ClientID: "s", KeepAlive: 6000, WillTopic: "w/x", WillPayload: "last-words", WillQoS: c.WillQoS, WillRetain: c.WillRetain}))
	if f := settle(); f != nil {
		return f
	}
	if !s.Accepted {
		return &failure{"session not accepted", true}
	}
	switch c.Before {
	case "disconnect":
		s.Send(sim.EncDisconnect())
	case "sub":
		s.Send(sim.EncSubscribe(1, []string{"other/#"}, []byte{0}))
	}
	if f := settle(); f != nil {
		return f
	}
	cl.CollectGossip()
	var lost []int
	for i, g := range cl.Gossip() {
		if g.From == n1.ID && !g.Dead {
			if c.LateGossip {
				lost = append(lost, i) // delivered after the exchange instead (a duplicate of what the exchange carried)
			} else {
				g.Dead = true
			}
		}
	}
	for k := 0; k < c.Syncs; k++ {
		for i, a := range cl.Nodes {
			for _, b := range cl.Nodes[i+1:] {
				cl.FullSync(a, b)
			}
		}
		if f := settle(); f != nil {
			return f
		}
	}
	for _, i := range lost {
		for _, n := range cl.Nodes[1:] {
			cl.DeliverGossip(i, n)
		}
	}
	if f := settle(); f != nil {
		return f
	}
	cl.FailNode(n1)
	// survivors publish the wills at the notification and purge the records 3 s later
	time.Sleep(3300 * time.Millisecond)
	if f := flush(); f != nil {
		return f
	}
	wills := 0
	for _, p := range w.Publishes() {
		if p.Topic == "w/x" && p.Payload == "last-words" {
			wills++
		} else {
			return &failure{fmt.Sprintf("the watcher received %v, which nobody published", p), false}
		}
	}
	want := 1
	if c.Before == "disconnect" {
		want = 0
	}
	if wills != want {
		return &failure{fmt.Sprintf("the watcher on node %s received the will %d time(s), want %d (the session was accepted by node %s during an outage of the broker links, the survivors learnt of it through %d full-state exchange(s); before: %q; then node %s failed)", n2.Name, wills, want, n1.Name, c.Syncs, c.Before, n1.Name), false}
	}
	if c.WillRetain && want == 1 {
		late := cl.NewClient("late")
		late.AttachTo(cl.Nodes[c.Nodes-1])
		late.Send(sim.EncConnect(sim.ConnectOpts{ClientID: "late", KeepAlive: 6000}))
		late.Send(sim.EncSubscribe(1, []string{"w/#"}, []byte{0}))
		if f := flush(); f != nil {
			return f
		}
		got := 0
		for _, p := range late.Publishes() {
			if p.Topic == "w/x" && p.Payload == "last-words" && p.Retain {
				got++
			}
		}
		if got != 1 {
			return &failure{fmt.Sprintf("a later subscriber received the retained will %d time(s), want 1", got), false}
		}
	}
	for _, n := range cl.Nodes[1:] {
		if l := len(n.State.SessionMetadatas().ByPeer(n1.ID)); l != 0 {
			return &failure{fmt.Sprintf("node %s still lists %d session(s) of the failed node", n.Name, l), false}
		}
	}
	return nil
}

func checkOutage(t ev.TB, c OutageCase) {
	ev.WriteCurrent("will-after-outage", c)
	f := runOutage(c)
	if f != nil && !f.inconclusive {
		if f2 := runOutage(c); f2 == nil || f2.inconclusive {
			ev.Count("unconfirmed_failures", 1)
			f = nil
		}
	}
	ev.Case(c.Before != "disconnect", c, "will-after-outage")
	if f != nil && f.inconclusive {
		ev.Inconclusive(t, f.msg)
		return
	}
	if f != nil {
		ev.Fail(t, "will-after-outage", c, "%s", f.msg)
	}
}

func init() {
	kinds["will-after-outage"] = func(t ev.TB, raw json.RawMessage) {
		var c OutageCase
		ev.Decode(t, raw, &c)
		checkOutage(t, c)
	}
}

func TestWillAfterOutage(t *testing.T) {
	var cases []OutageCase
	for nodes := 2; nodes <= 3; nodes++ {
		for _, before := range []string{"", "disconnect", "sub"} {
			for _, late := range []bool{false, true} {
				cases = append(cases, OutageCase{Nodes: nodes, WillQoS: byte(len(cases) % 2), WillRetain: len(cases)%3 == 0, Before: before, Syncs: 1 + len(cases)%2, LateGossip: late})
			}
		}
	}
	si, sn := ev.Shard()
	for i, c := range cases {
		if i%sn != si {
			continue
		}
		c := c
		t.Run(fmt.Sprint(i), func(t *testing.T) { t.Parallel(); checkOutage(t, c) })
	}
}
