// C13 — will messages are published exactly when a session dies without DISCONNECT.
package c13

import (
	"encoding/json"
	"fmt"
	"strings"
	"testing"

	"pgregory.net/rapid"
	"verifharness/internal/ev"
	"verifharness/internal/sim"
)

func TestMain(m *testing.M) { ev.Main(m, "C13") }

// Case: client 0 is the session with the will; clients 1.. are watchers.
type Case struct {
	Nodes    int        `json:"nodes"`
	Clients  int        `json:"clients"`
	Steps    []sim.Step `json:"steps"`
	Cause    string     `json:"cause"`
	WillNode int        `json:"will_node"`
}

type failure struct {
	msg          string
	inconclusive bool
}

func run(c Case) *failure {
	w, err := sim.NewWorld(c.Nodes, c.Clients)
	if err != nil {
		return &failure{err.Error(), true}
	}
	defer w.Close()
	for i, st := range c.Steps {
		problem, inconclusive := w.Apply(st)
		if inconclusive {
			return &failure{problem, true}
		}
		if problem != "" {
			return &failure{fmt.Sprintf("step %d (%s c%d): %s", i, st.Op, st.C, problem), false}
		}
		if m := w.CheckDeliveries(); m != "" {
			return &failure{fmt.Sprintf("after step %d (%s c%d): %s", i, st.Op, st.C, m), false}
		}
	}
	return nil
}

func check(t ev.TB, c Case, labels ...string) {
	ev.WriteCurrent("will", c)
	f := run(c)
	if f != nil && !f.inconclusive {
		again := 0
		for i := 0; i < 2 && again == 0; i++ {
			if f2 := run(c); f2 != nil && !f2.inconclusive {
				again++
			}
		}
		if again == 0 {
			ev.Count("unconfirmed_failures", 1)
			f = nil
		}
	}
	watcherNodes := map[int]bool{}
	for _, st := range c.Steps {
		if st.Op == "connect" && st.C > 0 {
			watcherNodes[st.Node] = true
		}
	}
	nt := strings.Contains(c.Cause, "failnode") || len(watcherNodes) >= 2
	ev.Case(nt, c, append(labels, "cause:"+c.Cause, fmt.Sprintf("nodes:%d", c.Nodes))...)
	if f != nil && f.inconclusive {
		ev.Inconclusive(t, f.msg)
		return
	}
	if f != nil {
		ev.Fail(t, "will", c, "%s", f.msg)
	}
}

var kinds = ev.Kinds{"will": func(t ev.TB, raw json.RawMessage) {
	var c Case
	ev.Decode(t, raw, &c)
	check(t, c, "replay")
}}

func TestReplayFile(t *testing.T) { ev.ReplayFile(t, kinds) }
func TestRegress(t *testing.T)    { ev.Regress(t, kinds, "testdata/regress") }

var willTopics = []string{"w", "w/a", "w/a/b", "w/", "x/y"}
var watchFilters = []string{"#", "w/#", "w/+", "w", "+/a", "x/y", "z", "w/a/b", "+"}
var mounts = []string{"", "", "tenant2"}

func genCase(t *rapid.T, nodeFailure bool) Case {
	c := Case{Nodes: rapid.IntRange(1, 3).Draw(t, "nodes"), Clients: rapid.IntRange(2, 5).Draw(t, "clients")}
	if nodeFailure && c.Nodes < 2 {
		c.Nodes = 2
	}
	c.WillNode = rapid.IntRange(0, c.Nodes-1).Draw(t, "willNode")
	will := &sim.Will{Topic: rapid.SampledFrom(willTopics).Draw(t, "willTopic"), Payload: "last-words", QoS: byte(rapid.IntRange(0, 2).Draw(t, "willQos")), Retain: rapid.IntRange(0, 3).Draw(t, "willRetain") == 0}
	willMP := rapid.SampledFrom(mounts).Draw(t, "willMP")
	ka := uint16(rapid.SampledFrom([]int{2, 10, 60}).Draw(t, "ka"))
	// watchers first (so that they are subscribed before the will is registered or not — order free)
	steps := []sim.Step{}
	dying := sim.Step{Op: "connect", C: 0, Node: c.WillNode, ClientID: "dying", KeepAlive: ka, MP: willMP, Will: will}
	if rapid.Bool().Draw(t, "dyingFirst") {
		steps = append(steps, dying)
	}
	for i := 1; i < c.Clients; i++ {
		node := rapid.IntRange(0, c.Nodes-1).Draw(t, "node")
		steps = append(steps, sim.Step{Op: "connect", C: i, Node: node, ClientID: fmt.Sprintf("watcher%d", i), KeepAlive: 6000, MP: rapid.SampledFrom(mounts).Draw(t, "mp")})
		nf := rapid.IntRange(1, 2).Draw(t, "nfilters")
		for j := 0; j < nf; j++ {
			steps = append(steps, sim.Step{Op: "sub", C: i, Filters: []string{rapid.SampledFrom(watchFilters).Draw(t, "filter")}, QoS: []int{rapid.IntRange(0, 2).Draw(t, "qos")}})
		}
	}
	if steps[0].ClientID != "dying" {
		steps = append(steps, dying)
	}
	if rapid.IntRange(0, 2).Draw(t, "twins") == 0 {
		// other sessions on the same node (and mount point) whose wills are byte-identical to the
		// dying one's (a fleet of devices configured alike): each session's will is its own
		for k, n := 0, rapid.IntRange(1, 3).Draw(t, "ntwins"); k < n; k++ {
			cNew := c.Clients
			c.Clients++
			w := *will
			steps = append(steps, sim.Step{Op: "connect", C: cNew, Node: c.WillNode, ClientID: fmt.Sprintf("twin%d", k), KeepAlive: ka, MP: willMP, Will: &w})
		}
	}
	if rapid.Bool().Draw(t, "dyingSubscribes") {
		// the dying session may itself be subscribed to its will topic: it must not get it
		steps = append(steps, sim.Step{Op: "sub", C: 0, Filters: []string{"#"}, QoS: []int{0}})
	}
	if rapid.IntRange(0, 2).Draw(t, "successor") == 0 {
		// the dying session's client id is taken over by another connection, which leaves again
		// before the dying session ends: the dying session was displaced but never told (it does
		// not ping), its identifier resolves to nothing when it finally ends without DISCONNECT —
		// its will is due
		cNew := c.Clients
		c.Clients++
		steps = append(steps, sim.Step{Op: "connect", C: cNew, Node: rapid.IntRange(0, c.Nodes-1).Draw(t, "successorNode"), ClientID: "dying", KeepAlive: 6000, MP: willMP})
		steps = append(steps, sim.Step{Op: rapid.SampledFrom([]string{"disconnect", "close"}).Draw(t, "successorEnd"), C: cNew})
		c.Cause = "successor-left+"
	}
	causes := []string{"close", "timeout", "protocol", "disconnect", "disconnect+close"}
	if steps[len(steps)-1].ClientID != "dying" && rapid.IntRange(0, 5).Draw(t, "goneBeforeConnack") == 0 && c.Cause == "" {
		// the dying client itself connects last, and is gone before it reads its CONNACK
		for i := range steps {
			if steps[i].Op == "connect" && steps[i].ClientID == "dying" {
				d := steps[i]
				steps = append(steps[:i], steps[i+1:]...)
				var keep []sim.Step
				for _, st := range steps {
					if st.C != 0 {
						keep = append(keep, st)
					}
				}
				d.Op = "connectclose"
				steps = append(keep, d)
				break
			}
		}
		c.Cause = "gone-before-connack"
		c.Steps = append(steps, sim.Step{Op: "sub", C: 1, Filters: []string{"w/#"}, QoS: []int{0}})
		return c
	}
	if nodeFailure {
		causes = []string{"failnode", "failnode", "disconnect+failnode", "close+failnode"}
	}
	cause := rapid.SampledFrom(causes).Draw(t, "cause")
	c.Cause += cause
	switch cause {
	case "close":
		steps = append(steps, sim.Step{Op: "close", C: 0})
	case "timeout":
		steps = append(steps, sim.Step{Op: "idle", C: 0, IdleMs: int64(ka) * 2000 * 12 / 10})
	case "protocol":
		steps = append(steps, sim.Step{Op: "raw", C: 0, Bytes: sim.EncConnect(sim.ConnectOpts{ClientID: "again", KeepAlive: 5})})
	case "disconnect":
		steps = append(steps, sim.Step{Op: "disconnect", C: 0})
	case "disconnect+close":
		steps = append(steps, sim.Step{Op: "disconnect", C: 0}, sim.Step{Op: "close", C: 0})
	case "failnode":
		steps = append(steps, sim.Step{Op: "failnode", Node: c.WillNode})
	case "disconnect+failnode":
		steps = append(steps, sim.Step{Op: "disconnect", C: 0}, sim.Step{Op: "failnode", Node: c.WillNode})
	case "close+failnode":
		steps = append(steps, sim.Step{Op: "close", C: 0}, sim.Step{Op: "failnode", Node: c.WillNode})
	}
	if nodeFailure && rapid.Bool().Draw(t, "secondLife") {
		// the failed node comes back under the same node id, hosts another session with a will,
		// and fails again (optionally a third time): every life's wills are published once
		lives := rapid.IntRange(1, 2).Draw(t, "moreLives")
		for l := 0; l < lives; l++ {
			cNew := c.Clients
			c.Clients++
			will2 := &sim.Will{Topic: rapid.SampledFrom(willTopics).Draw(t, "willTopic2"), Payload: fmt.Sprintf("last-words-of-life-%d", l+2), QoS: byte(rapid.IntRange(0, 2).Draw(t, "willQos2")), Retain: rapid.IntRange(0, 3).Draw(t, "willRetain2") == 0}
			steps = append(steps, sim.Step{Op: "restartnode", Node: c.WillNode},
				sim.Step{Op: "connect", C: cNew, Node: c.WillNode, ClientID: rapid.SampledFrom([]string{"dying", "dying-again"}).Draw(t, "cid2"), KeepAlive: ka, MP: willMP, Will: will2})
			if rapid.Bool().Draw(t, "idleBetween") {
				steps = append(steps, sim.Step{Op: "idle", C: cNew, IdleMs: 500})
			}
			steps = append(steps, sim.Step{Op: "failnode", Node: c.WillNode})
		}
		c.Cause += "+restart+failnode"
	}
	// afterwards: a late subscriber (retained wills) and an idle so that nothing else shows up
	late := rapid.IntRange(1, c.Clients-1).Draw(t, "late")
	steps = append(steps, sim.Step{Op: "sub", C: late, Filters: []string{"w/#"}, QoS: []int{0}})
	c.Steps = steps
	return c
}

func TestRandom(t *testing.T) {
	rapid.Check(t, func(t *rapid.T) { check(t, genCase(t, false)) })
}

func TestNodeFailure(t *testing.T) {
	rapid.Check(t, func(t *rapid.T) { check(t, genCase(t, true), "with-node-failure") })
}
