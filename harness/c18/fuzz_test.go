package c18

import (
	"encoding/hex"
	"testing"
	"time"

	"verifharness/internal/sim"
)

// caseFromBytes: a tiny framing layer turns fuzzer bytes into 1–3 hostile streams.
// byte 0: low 2 bits = number of streams - 1 (3 -> 3 streams), bit 2 = close stream 0, bit 3 =
// split every stream into two writes. Then per stream (except the last) a length byte pair;
// the last stream takes the rest.
func caseFromBytes(data []byte) Case {
	c := Case{Desc: []string{"mut: fuzzer input"}}
	if len(data) == 0 {
		return Case{Streams: []Stream{{}}}
	}
	ctl := data[0]
	data = data[1:]
	n := int(ctl&3) + 1
	if n > 3 {
		n = 3
	}
	for i := 0; i < n; i++ {
		var b []byte
		if i < n-1 && len(data) >= 2 {
			l := int(data[0])<<8 | int(data[1])
			data = data[2:]
			if l > len(data) {
				l = len(data)
			}
			b, data = data[:l], data[l:]
		} else {
			b, data = data, nil
		}
		s := Stream{Close: i == 0 && ctl&4 != 0}
		if ctl&8 != 0 && len(b) > 1 {
			s.Chunks = []Hex{Hex(b[:len(b)/2]), Hex(b[len(b)/2:])}
		} else if len(b) > 0 {
			s.Chunks = []Hex{Hex(b)}
		}
		c.Streams = append(c.Streams, s)
	}
	return c
}

// fuzzRun is run() with a cheaper witness: the probe publish goes to a topic nobody is
// subscribed to, so no round has to wait for the message-log poller.
func fuzzRun(c Case) *failure {
	cl, err := sim.NewCluster()
	if err != nil {
		return &failure{err.Error(), true}
	}
	defer cl.Close()
	cl.SettleBudget = 6 * time.Second // the fuzzer treats a slow iteration as a hang
	n, err := cl.AddNode(sim.NodeOpts{})
	if err != nil {
		return &failure{err.Error(), true}
	}
	w1 := cl.NewClient("w1")
	w1.AttachTo(n)
	w1.Send(sim.EncConnect(sim.ConnectOpts{ClientID: "witness-one", KeepAlive: 60000}))
	if err := cl.Settle(); err != nil {
		return &failure{err.Error(), true}
	}
	var hostile []*sim.Client
	for i := range c.Streams {
		h := cl.NewClient("hostile")
		h.AutoAck = false
		h.AttachTo(n)
		hostile = append(hostile, h)
		_ = i
	}
	for i, s := range c.Streams {
		for _, ch := range s.Chunks {
			hostile[i].Send(ch)
			if err := cl.Settle(); err != nil {
				return &failure{err.Error(), true}
			}
		}
		if s.Close {
			hostile[i].Close()
			if err := cl.Settle(); err != nil {
				return &failure{err.Error(), true}
			}
		}
	}
	light := func(k *sim.Client, tag string) *failure {
		sid := k.NextID()
		k.Send(sim.EncSubscribe(sid, []string{"witness-" + k.Name + "/#"}, []byte{1}))
		before := k.Count(sim.PINGRESP)
		k.Send(sim.EncPingReq())
		pid := k.NextID() + 20000
		k.Send(sim.EncPublish("nobody-listens/"+k.Name, []byte("probe"), 1, false, false, pid))
		if err := cl.Settle(); err != nil {
			return &failure{err.Error(), true}
		}
		switch {
		case k.Conn.State().BrokerClosed:
			return &failure{tag + ": the broker closed the witness connection", false}
		case !k.Has(sim.SUBACK, sid):
			return &failure{tag + ": witness SUBSCRIBE got no SUBACK", false}
		case k.Count(sim.PINGRESP) != before+1:
			return &failure{tag + ": witness PINGREQ got no PINGRESP", false}
		case !k.Has(sim.PUBACK, pid):
			return &failure{tag + ": witness QoS 1 PUBLISH got no PUBACK", false}
		}
		return nil
	}
	if f := light(w1, "after the hostile streams"); f != nil {
		return f
	}
	w2 := cl.NewClient("w2")
	w2.AttachTo(n)
	w2.Send(sim.EncConnect(sim.ConnectOpts{ClientID: "witness-two", KeepAlive: 60000}))
	if err := cl.Settle(); err != nil {
		return &failure{err.Error(), true}
	}
	if !w2.Accepted {
		return &failure{"a client connecting after the hostile streams is not accepted", false}
	}
	return light(w2, "new client after the hostile streams")
}

func FuzzClientBytes(f *testing.F) {
	seeds := []string{
		"00" + "100c00044d5154540402003c0000" + "82060001000161" + "01" + "30050001616161" + "c000" + "e000",
		"04" + "100c00044d5154540402003c0000" + "4000",
		"08" + "100c00044d5154540402003c0000" + "32070001610001" + "78",
		"01" + "0002" + "1000" + "100c00044d5154540402003c0000" + "a2020001",
		"00" + "100c00044d5154540402003c0000" + "30ffff7f0001",
		"00" + "10140004" + "4d515454" + "040e003c" + "00026831" + "0001" + "68" + "0001" + "77",
		"02" + "0003" + "c000ff" + "0002" + "e000" + "8200",
	}
	for _, s := range seeds {
		b, err := hex.DecodeString(s)
		if err != nil {
			f.Fatalf("bad seed %q", s)
		}
		f.Add(b)
	}
	f.Fuzz(func(t *testing.T, data []byte) {
		if len(data) > 4096 {
			return
		}
		// resource exhaustion is outside the property (and kills fuzz workers): a remaining
		// length of 2 MiB or more needs three continuation bytes in a row; such inputs are
		// skipped here (the 256 MiB and the five-byte cases are in TestConstants / TestRandom)
		for i := 0; i+2 < len(data); i++ {
			if data[i] >= 0x80 && data[i+1] >= 0x80 && data[i+2] >= 0x80 {
				return
			}
		}
		c := caseFromBytes(data)
		fl := fuzzRun(c)
		if fl != nil && !fl.inconclusive {
			if again := fuzzRun(c); again != nil && !again.inconclusive {
				t.Fatalf("%s\nstreams: %+v", fl.msg, c.Streams)
			}
		}
	})
}
