package c18

import (
	"encoding/json"
	"fmt"
	"testing"
	"time"

	"pgregory.net/rapid"
	"verifharness/internal/ev"
	"verifharness/internal/sim"
)

// Back-pressure. The hostile client stays connected but stops reading, so that whatever the
// broker writes to it blocks (until the write deadline, twice its keep-alive, passes on the
// virtual clock). It then floods the broker with publishes whose acknowledgements block the
// publish workers one after the other, and ends with a packet that needs one of them — the
// PUBREL of an exchange it holds open, a QoS 2 publish, ... — so that the broker's own 800 ms
// hand-over budget (real time) runs out on paths that ordinary histories never take. While the
// workers are held the other clients are not judged (the witness stays silent: that a
// non-reading client can hold the workers is back-pressure, not bytes); once the hostile
// client's write deadline has passed everything must be as before: the process is alive and the
// witnesses publish and receive normally.
type PressureCase struct {
	KeepAlive uint16 `json:"keepalive"` // of the hostile client: its write deadline is twice that
	Hold      int    `json:"hold"`      // QoS 2 exchanges opened (PUBLISH, PUBREC read) before it stops reading, ids 1..Hold
	Flood     int    `json:"flood"`     // QoS 1 publishes sent while not reading
	FloodQoS2 int    `json:"flood_qos2"`
	Finals    []Hex  `json:"finals"` // sent after the flood, 300 ms of real time later
	WaitMs    int    `json:"wait_ms"`
	Desc      string `json:"desc,omitempty"`
}

func runPressure(c PressureCase) *failure {
	cl, err := sim.NewCluster()
	if err != nil {
		return &failure{err.Error(), true}
	}
	defer cl.Close()
	n, err := cl.AddNode(sim.NodeOpts{})
	if err != nil {
		return &failure{err.Error(), true}
	}
	cl.SettleBudget, cl.StallAfter = 20*time.Second, 10*time.Second
	w1 := cl.NewClient("w1")
	w1.AttachTo(n)
	w1.Send(sim.EncConnect(sim.ConnectOpts{ClientID: "witness-one", KeepAlive: 60000}))
	w1.Send(sim.EncSubscribe(w1.NextID(), []string{"witness-w1/#"}, []byte{1}))
	h := cl.NewClient("hostile0")
	h.AttachTo(n)
	h.HoldRel = map[uint16]bool{}
	for i := 1; i <= c.Hold; i++ {
		h.HoldRel[uint16(i)] = true
	}
	h.Send(sim.EncConnect(sim.ConnectOpts{ClientID: "hostile", KeepAlive: c.KeepAlive}))
	for i := 1; i <= c.Hold; i++ {
		h.Send(sim.EncPublish("h/held", []byte(fmt.Sprintf("held-%d", i)), 2, false, false, uint16(i)))
	}
	if f := settled(cl); f != nil {
		return f
	}
	if !w1.Accepted || !h.Accepted {
		return &failure{"witness or hostile client not accepted", true}
	}
	h.Conn.StallWrites(true)
	for i := 0; i < c.Flood; i++ {
		h.Send(sim.EncPublish("h/flood", []byte("f"), 1, false, false, uint16(1000+i)))
	}
	for i := 0; i < c.FloodQoS2; i++ {
		h.Send(sim.EncPublish("h/flood2", []byte("f"), 2, false, false, uint16(3000+i)))
	}
	time.Sleep(300 * time.Millisecond)
	for _, b := range c.Finals {
		h.Send(b)
	}
	time.Sleep(time.Duration(c.WaitMs) * time.Millisecond)
	// the hostile client's write deadline passes; it is reading again (too late)
	cl.Clock.Advance(2*time.Duration(c.KeepAlive)*time.Second + 3*time.Second)
	time.Sleep(50 * time.Millisecond)
	h.Conn.StallWrites(false)
	if f := settled(cl); f != nil {
		return f
	}
	if f := witnessRound(cl, w1, "after the non-reading client was dropped", 1); f != nil {
		return f
	}
	w2 := cl.NewClient("w2")
	w2.AttachTo(n)
	w2.Send(sim.EncConnect(sim.ConnectOpts{ClientID: "witness-two", KeepAlive: 60000}))
	if f := settled(cl); f != nil {
		return f
	}
	if !w2.Accepted {
		return &failure{fmt.Sprintf("a client connecting after the non-reading client was dropped is not accepted (received %v)", w2.Rx), false}
	}
	return witnessRound(cl, w2, "new client after the non-reading client was dropped", 2)
}

func checkPressure(t ev.TB, c PressureCase, labels ...string) {
	ev.WriteCurrent("back-pressure", c)
	f := runPressure(c)
	if f != nil && !f.inconclusive {
		if f2 := runPressure(c); f2 == nil || f2.inconclusive {
			ev.Count("unconfirmed_failures", 1)
			f = nil
		}
	}
	ev.Case(c.Flood+c.FloodQoS2 >= 20 && len(c.Finals) > 0, c, append(labels, "back-pressure")...)
	if f != nil && f.inconclusive {
		ev.Inconclusive(t, f.msg)
		return
	}
	if f != nil {
		ev.Fail(t, "back-pressure", c, "%s", f.msg)
	}
}

func init() {
	kinds["back-pressure"] = func(t ev.TB, raw json.RawMessage) {
		var c PressureCase
		ev.Decode(t, raw, &c)
		checkPressure(t, c, "replay")
	}
}

func TestBackPressure(t *testing.T) {
	rapid.Check(t, func(t *rapid.T) {
		c := PressureCase{KeepAlive: uint16(rapid.SampledFrom([]int{1, 2, 5}).Draw(t, "keepalive")), Hold: rapid.IntRange(0, 3).Draw(t, "hold"),
			Flood: rapid.SampledFrom([]int{0, 5, 19, 20, 20, 20, 20, 21, 25, 60}).Draw(t, "flood"), FloodQoS2: rapid.SampledFrom([]int{0, 0, 3, 25}).Draw(t, "floodQos2"),
			WaitMs: rapid.SampledFrom([]int{100, 1200, 1200, 2500}).Draw(t, "waitMs")}
		nf := rapid.IntRange(1, 4).Draw(t, "finals")
		for i := 0; i < nf; i++ {
			kind := rapid.IntRange(0, 7).Draw(t, "final")
			if i == 0 && c.Hold > 0 && rapid.Bool().Draw(t, "releaseFirst") {
				kind = 0
			}
			switch kind {
			case 0, 1, 2:
				id := uint16(rapid.IntRange(1, 4).Draw(t, "relId"))
				c.Finals = append(c.Finals, sim.EncAck(sim.PUBREL, id))
				c.Desc += fmt.Sprintf("PUBREL %d; ", id)
			case 3:
				c.Finals = append(c.Finals, sim.EncPublish("h/final", []byte("x"), byte(rapid.IntRange(0, 2).Draw(t, "qos")), rapid.Bool().Draw(t, "retain"), false, 77))
				c.Desc += "PUBLISH; "
			case 4:
				c.Finals = append(c.Finals, sim.EncSubscribe(78, []string{"h/#"}, []byte{1}))
				c.Desc += "SUBSCRIBE; "
			case 5:
				c.Finals = append(c.Finals, sim.EncPingReq())
				c.Desc += "PINGREQ; "
			case 6:
				c.Finals = append(c.Finals, sim.EncAck(rapid.SampledFrom([]byte{sim.PUBACK, sim.PUBREC, sim.PUBCOMP}).Draw(t, "ackType"), uint16(rapid.IntRange(1, 3).Draw(t, "ackId"))))
				c.Desc += "ack; "
			default:
				c.Finals = append(c.Finals, sim.EncDisconnect())
				c.Desc += "DISCONNECT; "
			}
		}
		checkPressure(t, c)
	})
}
