package c18

import (
	"encoding/json"
	"fmt"
	"os"
	"runtime"
	"strings"
	"testing"
	"time"
)

func TestDbgStall(t *testing.T) {
	b, _ := os.ReadFile("/tmp/c18stall.json")
	var r struct {
		Case Case `json:"case"`
	}
	json.Unmarshal(b, &r)
	for i := 0; i < 6; i++ {
		done := make(chan *failure, 1)
		go func() { done <- run(r.Case) }()
		select {
		case f := <-done:
			fmt.Println("run", i, "->", f)
		case <-time.After(8 * time.Second):
			buf := make([]byte, 1<<22)
			n := runtime.Stack(buf, true)
			for _, g := range strings.Split(string(buf[:n]), "\n\n") {
				if !strings.Contains(g, "TestDbgStall") {
					fmt.Println(g)
					fmt.Println("-----")
				}
			}
			t.Fatalf("stalled in run %d", i)
		}
	}
}
