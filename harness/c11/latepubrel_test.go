package c11

// Late and repeated QoS 2 packets do not end a session.
//
// A session ends only by DISCONNECT, connection loss, keep-alive expiry, a protocol error or a
// takeover. A PUBREL that arrives after the broker has given up waiting for it (the harness
// sweeps the in-flight table in between), a PUBREL or PUBCOMP sent twice, a PUBACK / PUBREC for
// an identifier that is not in flight: all of these are ordinary client behaviour within the
// keep-alive; afterwards the connection is open, a PINGREQ is answered, and the session and its
// subscription are still listed.

import (
	"encoding/json"
	"fmt"
	"testing"

	"pgregory.net/rapid"
	"verifharness/internal/ev"
	"verifharness/internal/sim"
)

type LateRelCase struct {
	Steps []string `json:"steps"` // hold | sweep | rel | relagain | compagain | strayack | strayrec | deliver2
}

func runLateRel(c LateRelCase) *failure {
	cl, err := sim.NewCluster()
	if err != nil {
		return &failure{err.Error(), true}
	}
	defer cl.Close()
	n, err := cl.AddNode(sim.NodeOpts{})
	if err != nil {
		return &failure{err.Error(), true}
	}
	settle := func() *failure {
		if err := cl.Settle(); err != nil {
			return &failure{err.Error(), true}
		}
		return nil
	}
	k := cl.NewClient("steady")
	k.AutoAck = false
	k.AttachTo(n)
	k.Send(sim.EncConnect(sim.ConnectOpts{ClientID: "steady", KeepAlive: 6000}))
	k.Send(sim.EncSubscribe(1, []string{"q/#"}, []byte{2}))
	other := cl.NewClient("other")
	other.AttachTo(n)
	other.Send(sim.EncConnect(sim.ConnectOpts{ClientID: "other", KeepAlive: 6000}))
	if f := settle(); f != nil {
		return f
	}
	sid := n.Local.SessionOf(k.Conn)
	nextID := uint16(100)
	var open []uint16 // the client's own QoS 2 publishes awaiting PUBREL
	var done []uint16 // completed ones
	var delivered []uint16
	for si, st := range c.Steps {
		switch st {
		case "hold":
			nextID++
			k.Send(sim.EncPublish("elsewhere/x", []byte(fmt.Sprintf("m%d", si)), 2, false, false, nextID))
			open = append(open, nextID)
		case "sweep":
			n.Acks.SweepAll()
		case "rel":
			if len(open) > 0 {
				k.Send(sim.EncAck(sim.PUBREL, open[0]))
				done = append(done, open[0])
				open = open[1:]
			}
		case "relagain":
			if len(done) > 0 {
				k.Send(sim.EncAck(sim.PUBREL, done[len(done)-1]))
			}
		case "deliver2":
			// a QoS 2 delivery to the session, completed by the client
			other.Send(sim.EncPublish("q/x", []byte(fmt.Sprintf("d%d", si)), 2, false, false, uint16(200+si)))
			if f := settle(); f != nil {
				return f
			}
			for _, p := range k.Publishes() {
				seen := false
				for _, d := range delivered {
					if d == p.ID {
						seen = true
					}
				}
				if p.QoS == 2 && !seen {
					delivered = append(delivered, p.ID)
					k.Send(sim.EncAck(sim.PUBREC, p.ID))
					if f := settle(); f != nil {
						return f
					}
					k.Send(sim.EncAck(sim.PUBCOMP, p.ID))
				}
			}
		case "compagain":
			if len(delivered) > 0 {
				k.Send(sim.EncAck(sim.PUBCOMP, delivered[len(delivered)-1]))
			}
		case "strayack":
			k.Send(sim.EncAck(sim.PUBACK, 4242))
		case "strayrec":
			k.Send(sim.EncAck(sim.PUBREC, 4243))
		}
		if f := settle(); f != nil {
			return f
		}
		if k.Conn.State().BrokerClosed {
			return &failure{fmt.Sprintf("step %d (%s): the broker closed the connection of a session that did nothing but send a late or repeated QoS 2 packet (steps so far %v)", si, st, c.Steps[:si+1]), false}
		}
	}
	before := k.Count(sim.PINGRESP)
	k.Send(sim.EncPingReq())
	if f := settle(); f != nil {
		return f
	}
	if k.Conn.State().BrokerClosed || k.Count(sim.PINGRESP) != before+1 {
		return &failure{fmt.Sprintf("after %v the session's PINGREQ got %d PINGRESP, connection closed: %v", c.Steps, k.Count(sim.PINGRESP)-before, k.Conn.State().BrokerClosed), false}
	}
	listed := false
	for _, m := range n.State.SessionMetadatas().All() {
		if m.SessionID == sid {
			listed = true
		}
	}
	subs := 0
	for _, s := range n.State.Subscriptions().All() {
		if s.SessionID == sid {
			subs++
		}
	}
	if !listed || subs != 1 {
		return &failure{fmt.Sprintf("after %v the session is listed: %v, with %d subscription(s); want true, 1", c.Steps, listed, subs), false}
	}
	return nil
}

func checkLateRel(t ev.TB, c LateRelCase) {
	ev.WriteCurrent("late-qos2-packets", c)
	f := runLateRel(c)
	if f != nil && !f.inconclusive {
		if f2 := runLateRel(c); f2 == nil || f2.inconclusive {
			ev.Count("unconfirmed_failures", 1)
			f = nil
		}
	}
	nt := false
	for i, s := range c.Steps {
		if s == "sweep" && i > 0 {
			nt = true
		}
	}
	ev.Case(nt, c, "late-qos2-packets")
	if f != nil && f.inconclusive {
		ev.Inconclusive(t, f.msg)
		return
	}
	if f != nil {
		ev.Fail(t, "late-qos2-packets", c, "%s", f.msg)
	}
}

func init() {
	kinds["late-qos2-packets"] = func(t ev.TB, raw json.RawMessage) {
		var c LateRelCase
		ev.Decode(t, raw, &c)
		checkLateRel(t, c)
	}
}

func TestLateQoS2Packets(t *testing.T) {
	rapid.Check(t, func(t *rapid.T) {
		var c LateRelCase
		for i, n := 0, rapid.IntRange(2, 9).Draw(t, "steps"); i < n; i++ {
			c.Steps = append(c.Steps, rapid.SampledFrom([]string{"hold", "hold", "sweep", "rel", "rel", "relagain", "compagain", "strayack", "strayrec", "deliver2"}).Draw(t, "step"))
		}
		checkLateRel(t, c)
	})
}
