// C11 — sessions end only for cause, and ending one removes every trace of it.
package c11

import (
	"encoding/json"
	"fmt"
	"os"
	"sort"
	"testing"

	"pgregory.net/rapid"
	"verifharness/internal/ev"
	"verifharness/internal/sim"
)

func TestMain(m *testing.M) { ev.Main(m, "C11") }

type Case struct {
	Nodes   int        `json:"nodes"`
	Clients int        `json:"clients"`
	Steps   []sim.Step `json:"steps"`
	// ManualGossip: broadcasts move only at gossip1 / gossipall steps; the cluster-wide state
	// is judged after gossipall steps (and at the end, after a final gossipall) only, and
	// deliveries are not judged (what a node forwards depends on what it has learned so far).
	ManualGossip bool `json:"manual_gossip,omitempty"`
}

type failure struct {
	msg          string
	inconclusive bool
}

func run(c Case) (f *failure, nontrivial bool) {
	w, err := sim.NewWorld(c.Nodes, c.Clients)
	if err != nil {
		return &failure{err.Error(), true}, false
	}
	defer w.Close()
	if c.ManualGossip {
		w.Cl.AutoGossip = false
		c.Steps = append(append([]sim.Step{}, c.Steps...), sim.Step{Op: "gossipall"})
	}
	hadSubs := map[int]bool{}
	connectedAtStep := map[int]int{}
	inWindow := false
	for i, st := range c.Steps {
		switch st.Op {
		case "sub":
			if st.C < len(w.S) && w.S[st.C].Alive {
				hadSubs[st.C] = true
			}
		case "connect":
			connectedAtStep[st.C] = i
		case "idle":
			// "within" idle of more than 3 s directly after a CONNECT
			if i > 0 && c.Steps[i-1].Op == "connect" && st.IdleMs > 3000 {
				nontrivial = true
			}
		case "close", "raw", "failnode", "subclose", "pubclose":
			if st.Op == "subclose" {
				nontrivial = true
			}
			for ci := range hadSubs {
				if st.Op == "failnode" || ci == st.C {
					nontrivial = true
				}
			}
		}
		problem, inconclusive := w.Apply(st)
		if os.Getenv("VERIF_TRACE") != "" {
			fmt.Fprintf(os.Stderr, "step %d %s c%d node%d: now=%v problem=%q\n", i, st.Op, st.C, st.Node, w.Cl.Clock.Now(), problem)
			for ci, s := range w.S {
				if s.Connected {
					fmt.Fprintf(os.Stderr, "   c%d sid=%s alive=%v displaced=%v deadline=%v end=%s closed=%v\n", ci, s.SessionID, s.Alive, s.Displaced, s.Deadline, s.EndCause, s.K.Conn.State().BrokerClosed)
				}
			}
			for _, n := range w.Cl.Nodes {
				fmt.Fprintf(os.Stderr, "   %s lists %v\n", n.Name, sim.SortedSessions(n))
			}
		}
		if inconclusive {
			return &failure{problem, true}, nontrivial
		}
		if problem != "" {
			return &failure{fmt.Sprintf("step %d (%s c%d): %s", i, st.Op, st.C, problem), false}, nontrivial
		}
		for ci, s := range w.S {
			if s.EndCause == "timeout" && hadSubs[ci] {
				nontrivial = true
			}
		}
		// between the restart of a failed node and the end of the survivors' purge window the
		// records of its first life are still listed by design
		if st.Op == "failrestart" {
			inWindow = true
		}
		if st.Op == "wait" && st.IdleMs >= 3000 {
			inWindow = false
		}
		if inWindow {
			continue
		}
		if c.ManualGossip {
			if st.Op == "gossipall" {
				if m := w.CheckState(); m != "" {
					return &failure{fmt.Sprintf("after step %d (all gossip delivered): %s", i, m), false}, nontrivial
				}
			}
			continue
		}
		if m := w.CheckState(); m != "" {
			return &failure{fmt.Sprintf("after step %d (%s c%d): %s", i, st.Op, st.C, m), false}, nontrivial
		}
		if m := w.CheckDeliveries(); m != "" {
			return &failure{fmt.Sprintf("after step %d (%s c%d): %s", i, st.Op, st.C, m), false}, nontrivial
		}
	}
	return nil, nontrivial
}

func check(t ev.TB, c Case, labels ...string) {
	ev.WriteCurrent("session-lifecycle", c)
	f, nt := run(c)
	if f != nil && !f.inconclusive {
		again := 0
		for i := 0; i < 2 && again == 0; i++ {
			if f2, _ := run(c); f2 != nil && !f2.inconclusive {
				again++
			}
		}
		if again == 0 {
			ev.Count("unconfirmed_failures", 1)
			f = nil
		}
	}
	ids := map[string]int{}
	for _, st := range c.Steps {
		switch st.Op {
		case "close", "raw", "failnode", "disconnect", "subclose", "pubclose", "restartnode", "failrestart":
			labels = append(labels, "cause:"+st.Op)
		case "connect":
			ids[st.ClientID]++
			if ids[st.ClientID] == 2 {
				labels = append(labels, "cause:displacement")
			}
		}
	}
	labels = append(labels, fmt.Sprintf("nodes:%d", c.Nodes))
	ev.Case(nt, c, labels...)
	if f != nil && f.inconclusive {
		ev.Inconclusive(t, f.msg)
		return
	}
	if f != nil {
		ev.Fail(t, "session-lifecycle", c, "%s", f.msg)
	}
}

var kinds = ev.Kinds{"session-lifecycle": func(t ev.TB, raw json.RawMessage) {
	var c Case
	ev.Decode(t, raw, &c)
	check(t, c, "replay")
}}

func TestReplayFile(t *testing.T) { ev.ReplayFile(t, kinds) }
func TestRegress(t *testing.T)    { ev.Regress(t, kinds, "testdata/regress") }

var filters = []string{"a/#", "a/+", "b", "#", "a/b", "+/b"}
var topics = []string{"a/b", "a", "b", "a/c", "c"}
var keepalives = []uint16{1, 2, 10, 60, 600, 65535}

// protocol errors the broker must answer by ending the session (and nothing else)
var protoErrors = [][]byte{
	sim.EncConnect(sim.ConnectOpts{ClientID: "again", KeepAlive: 10}), // second CONNECT
	{0xF0, 0x00}, // reserved packet type 15
	{0x00, 0x00}, // reserved packet type 0
}

func genCase(t *rapid.T, allowNodeFail bool) Case {
	c := Case{Nodes: rapid.IntRange(1, 3).Draw(t, "nodes"), Clients: rapid.IntRange(2, 5).Draw(t, "clients")}
	n := rapid.IntRange(4, 25).Draw(t, "steps")
	connected := map[int]uint16{}
	payload := 0
	failed, failedNode, restarted := 0, 0, false
	for i := 0; i < n; i++ {
		ci := rapid.IntRange(0, c.Clients-1).Draw(t, "client")
		ka, isConn := connected[ci]
		if !isConn {
			cid := fmt.Sprintf("cid%d", ci)
			if len(connected) > 0 && rapid.IntRange(0, 5).Draw(t, "takeover") == 0 {
				// displacement: this connection reuses the client id of an earlier one
				var ids []int
				for k := range connected {
					ids = append(ids, k)
				}
				sort.Ints(ids)
				cid = fmt.Sprintf("cid%d", rapid.SampledFrom(ids).Draw(t, "victim"))
			}
			st := sim.Step{Op: "connect", C: ci, Node: rapid.IntRange(0, c.Nodes-1).Draw(t, "node"), ClientID: cid,
				KeepAlive: rapid.SampledFrom(keepalives).Draw(t, "keepalive")}
			if rapid.Bool().Draw(t, "will") {
				st.Will = &sim.Will{Topic: rapid.SampledFrom(topics).Draw(t, "willTopic"), Payload: fmt.Sprintf("will-of-%d", ci), QoS: byte(rapid.IntRange(0, 1).Draw(t, "willQos"))}
			}
			connected[ci] = st.KeepAlive
			c.Steps = append(c.Steps, st)
			if rapid.IntRange(0, 2).Draw(t, "idleAfterConnect") == 0 {
				x := rapid.SampledFrom([]float64{0.05, 0.5, 0.9}).Draw(t, "x")
				c.Steps = append(c.Steps, sim.Step{Op: "idle", C: ci, IdleMs: int64(x * 2000 * float64(st.KeepAlive))})
			}
			continue
		}
		switch x := rapid.IntRange(0, 20).Draw(t, "op"); {
		case x == 20:
			// a PUBLISH that arrives in two pieces while other clients come and go on that node:
			// the client stays within the protocol and its keep-alive, its session must go on
			node := 0
			for _, st := range c.Steps {
				if st.Op == "connect" && st.C == ci {
					node = st.Node
				}
			}
			payload++
			pad := rapid.SampledFrom([]int{0, 150, 150, 150, 20000}).Draw(t, "pad")
			c.Steps = append(c.Steps, sim.Step{Op: "pubpart", C: ci, Topic: rapid.SampledFrom(topics).Draw(t, "topic"), Payload: fmt.Sprintf("p%d", payload), Pad: pad,
				PQoS: byte(rapid.IntRange(0, 1).Draw(t, "pqos")), Split: rapid.SampledFrom([]int{1, 2, 2, 2, 3, 9}).Draw(t, "split")})
			if ka >= 60 {
				c.Steps = append(c.Steps, sim.Step{Op: "churn", Node: node, IdleMs: int64(rapid.SampledFrom([]int{1, 21, 21, 45}).Draw(t, "churn"))})
			}
			if rapid.Bool().Draw(t, "explicitRest") {
				c.Steps = append(c.Steps, sim.Step{Op: "pubrest", C: ci})
			}
		case x < 5:
			f := rapid.SampledFrom(filters).Draw(t, "filter")
			c.Steps = append(c.Steps, sim.Step{Op: "sub", C: ci, Filters: []string{f}, QoS: []int{rapid.IntRange(0, 1).Draw(t, "qos")}})
		case x < 7:
			c.Steps = append(c.Steps, sim.Step{Op: "unsub", C: ci, Filters: []string{rapid.SampledFrom(filters).Draw(t, "filter")}})
		case x < 10:
			payload++
			c.Steps = append(c.Steps, sim.Step{Op: "pub", C: ci, Topic: rapid.SampledFrom(topics).Draw(t, "topic"), Payload: fmt.Sprintf("p%d", payload), PQoS: byte(rapid.IntRange(0, 1).Draw(t, "pqos"))})
		case x < 12:
			c.Steps = append(c.Steps, sim.Step{Op: "ping", C: ci})
		case x < 15:
			f := rapid.SampledFrom([]float64{0.05, 0.5, 0.9, 0.9, 1.1, 3}).Draw(t, "x")
			c.Steps = append(c.Steps, sim.Step{Op: "idle", C: ci, IdleMs: int64(f * 2000 * float64(ka))})
		case x < 16:
			c.Steps = append(c.Steps, sim.Step{Op: "disconnect", C: ci})
		case x < 17:
			switch rapid.IntRange(0, 3).Draw(t, "closeKind") {
			case 0:
				c.Steps = append(c.Steps, sim.Step{Op: "subclose", C: ci, Filters: []string{rapid.SampledFrom(filters).Draw(t, "filter"), rapid.SampledFrom(filters).Draw(t, "filter2")}, QoS: []int{1, 0}})
			case 1:
				payload++
				c.Steps = append(c.Steps, sim.Step{Op: "pubclose", C: ci, Topic: rapid.SampledFrom(topics).Draw(t, "topic"), Payload: fmt.Sprintf("p%d", payload)})
			default:
				c.Steps = append(c.Steps, sim.Step{Op: "close", C: ci})
			}
		case x < 18:
			c.Steps = append(c.Steps, sim.Step{Op: "raw", C: ci, Bytes: rapid.SampledFrom(protoErrors).Draw(t, "protoError")})
		default:
			if allowNodeFail && c.Nodes > 1 && failed == 0 {
				failed++
				failedNode = rapid.IntRange(0, c.Nodes-1).Draw(t, "failed")
				c.Steps = append(c.Steps, sim.Step{Op: "failnode", Node: failedNode})
			} else if allowNodeFail && failed == 1 && !restarted {
				// the failed node comes back under its node id with empty state
				restarted = true
				c.Steps = append(c.Steps, sim.Step{Op: "restartnode", Node: failedNode})
			} else if allowNodeFail && failed == 1 && restarted {
				failed++
				c.Steps = append(c.Steps, sim.Step{Op: "failnode", Node: failedNode})
			} else {
				c.Steps = append(c.Steps, sim.Step{Op: "ping", C: ci})
			}
		}
	}
	return c
}

// TestRandom: scripts without node failure (no real-time waits).
func TestRandom(t *testing.T) {
	rapid.Check(t, func(t *rapid.T) { check(t, genCase(t, false)) })
}

// TestNodeFailure: scripts that may include the failure of a hosting node (3 s of real time each).
func TestNodeFailure(t *testing.T) {
	rapid.Check(t, func(t *rapid.T) {
		c := genCase(t, true)
		check(t, c, "with-node-failure")
	})
}

// TestGossipSchedules: 2-3 nodes, broadcasts delivered one by one in a generated order (or
// not at all until the next deliver-everything point), node failure possible at any point.
func TestGossipSchedules(t *testing.T) {
	rapid.Check(t, func(t *rapid.T) {
		base := genCase(t, rapid.IntRange(0, 4).Draw(t, "withNodeFailure") == 0)
		if base.Nodes < 2 {
			base.Nodes = 2
		}
		c := Case{Nodes: base.Nodes, Clients: base.Clients, ManualGossip: true}
		seen := map[string]bool{}
		for _, st := range base.Steps {
			if st.Op == "connect" {
				if seen[st.ClientID] {
					st.ClientID = fmt.Sprintf("%s-x%d", st.ClientID, st.C) // takeover needs the proviso of C12: not here
				}
				seen[st.ClientID] = true
			}
			c.Steps = append(c.Steps, st)
			switch x := rapid.IntRange(0, 9).Draw(t, "gossip"); {
			case x < 4:
				k := rapid.IntRange(1, 3).Draw(t, "k")
				for j := 0; j < k; j++ {
					c.Steps = append(c.Steps, sim.Step{Op: "gossip1", C: rapid.IntRange(0, 60).Draw(t, "g"), Node: rapid.IntRange(0, c.Nodes-1).Draw(t, "to")})
				}
			case x < 6:
				c.Steps = append(c.Steps, sim.Step{Op: "gossipall"})
			}
		}
		check(t, c, "manual-gossip")
	})
}

// TestQuickRestart: a node's process dies and is restarted under the same node id within the
// 3 s after which the survivors purge the failed peer's records (a supervisor restarting the
// broker). Clients connect to the new process inside and after that window. When the window
// is over: the sessions of the first life are gone everywhere with their subscriptions, the
// sessions of the second life are listed everywhere and keep their subscriptions.
func TestQuickRestart(t *testing.T) {
	rapid.Check(t, func(t *rapid.T) {
		c := Case{Nodes: rapid.IntRange(2, 3).Draw(t, "nodes"), Clients: 6}
		victim := rapid.IntRange(0, c.Nodes-1).Draw(t, "victim")
		other := (victim + 1) % c.Nodes
		will := func(i int) *sim.Will {
			if rapid.Bool().Draw(t, "will") {
				return &sim.Will{Topic: "a", Payload: fmt.Sprintf("will-of-%d", i), QoS: 0}
			}
			return nil
		}
		c.Steps = append(c.Steps,
			sim.Step{Op: "connect", C: 0, Node: other, ClientID: "watcher", KeepAlive: 6000},
			sim.Step{Op: "sub", C: 0, Filters: []string{"#"}, QoS: []int{0}},
			sim.Step{Op: "connect", C: 1, Node: victim, ClientID: "first-life-1", KeepAlive: 6000, Will: will(1)},
			sim.Step{Op: "sub", C: 1, Filters: []string{"a/#"}, QoS: []int{1}},
			sim.Step{Op: "connect", C: 2, Node: victim, ClientID: "first-life-2", KeepAlive: 6000, Will: will(2)},
			sim.Step{Op: "failrestart", Node: victim})
		// inside the window
		if rapid.Bool().Draw(t, "connectInside") {
			c.Steps = append(c.Steps, sim.Step{Op: "wait", IdleMs: int64(rapid.SampledFrom([]int{0, 500, 2000}).Draw(t, "inside"))},
				sim.Step{Op: "connect", C: 3, Node: victim, ClientID: rapid.SampledFrom([]string{"second-life", "first-life-1"}).Draw(t, "cid"), KeepAlive: 6000, Will: will(3)},
				sim.Step{Op: "sub", C: 3, Filters: []string{"b/#"}, QoS: []int{0}})
		}
		c.Steps = append(c.Steps, sim.Step{Op: "wait", IdleMs: 3600})
		if rapid.Bool().Draw(t, "connectAfter") {
			c.Steps = append(c.Steps, sim.Step{Op: "connect", C: 4, Node: victim, ClientID: "after-window", KeepAlive: 6000},
				sim.Step{Op: "sub", C: 4, Filters: []string{"a/b"}, QoS: []int{0}})
		}
		c.Steps = append(c.Steps, sim.Step{Op: "pub", C: 0, Topic: "a/b", Payload: "probe", PQoS: 1})
		check(t, c, "quick-restart")
	})
}
