package c11

import (
	"encoding/json"
	"fmt"
	"strings"
	"testing"

	"verifharness/internal/dst"
	"verifharness/internal/ev"
	"verifharness/internal/sim"
)

// Late announcements on a busy filter. Session S subscribes to filter F on node 1 and ends; the
// broadcast announcing its subscription is delayed on its way to node 2 (memberlist retransmits
// and reorders), everything else arrives: S's removal first, then Others further sessions that
// subscribe to the very same filter and leave again. When the announcement finally arrives —
// and again after a full-state exchange in both directions — no node may list a subscription
// of S: its session has ended, and the removal is newer than the announcement, however many
// other removals the filter has seen since.
type LateCase struct {
	Others   int    `json:"others"`
	Filter   string `json:"filter"`
	EndBy    string `json:"end_by"`    // how S ends: disconnect | close | unsub (UNSUBSCRIBE, then DISCONNECT)
	SameTime bool   `json:"same_time"` // the other sessions come and go in one batch instead of one after the other
}

func runLate(c LateCase) *failure {
	cl, err := sim.NewCluster()
	if err != nil {
		return &failure{err.Error(), true}
	}
	defer cl.Close()
	cl.AutoGossip = false
	for i := 0; i < 2; i++ {
		if _, err := cl.AddNode(sim.NodeOpts{}); err != nil {
			return &failure{err.Error(), true}
		}
	}
	n1, n2 := cl.Nodes[0], cl.Nodes[1]
	settle := func() *failure {
		if err := cl.Settle(); err != nil {
			return &failure{err.Error(), true}
		}
		return nil
	}
	s := cl.NewClient("s")
	s.AttachTo(n1)
	s.Send(sim.EncConnect(sim.ConnectOpts{ClientID: "s", KeepAlive: 6000}))
	if f := settle(); f != nil {
		return f
	}
	sid := n1.Local.SessionOf(s.Conn)
	s.Send(sim.EncSubscribe(1, []string{c.Filter}, []byte{1}))
	if f := settle(); f != nil {
		return f
	}
	// the announcement of S's subscription is held back
	held := map[int]bool{}
	cl.CollectGossip()
	for i, g := range cl.Gossip() {
		es, _ := dst.Decode(g.Msg)
		for _, e := range es {
			if e.Kind == "sub" && strings.HasSuffix(e.Key, "|"+sid) && e.Present() {
				held[i] = true
			}
		}
	}
	if len(held) == 0 {
		return &failure{"no broadcast announces the subscription of the session", false}
	}
	deliverOthers := func() {
		cl.CollectGossip()
		for i := range cl.Gossip() {
			if !held[i] && cl.Gossip()[i].Sent[n2.ID] == 0 {
				cl.DeliverGossip(i, n2)
			}
		}
	}
	deliverOthers()
	switch c.EndBy {
	case "close":
		s.Close()
	case "unsub":
		s.Send(sim.EncUnsubscribe(2, []string{c.Filter}))
		s.Send(sim.EncDisconnect())
	default:
		s.Send(sim.EncDisconnect())
	}
	if f := settle(); f != nil {
		return f
	}
	deliverOthers()
	batch := 1
	if c.SameTime {
		batch = 50
	}
	for done := 0; done < c.Others; {
		var ks []*sim.Client
		for j := 0; j < batch && done < c.Others; j++ {
			k := cl.NewClient(fmt.Sprintf("o%d", done))
			k.AttachTo(n1)
			k.Send(sim.EncConnect(sim.ConnectOpts{ClientID: k.Name, KeepAlive: 6000}))
			k.Send(sim.EncSubscribe(1, []string{c.Filter}, []byte{0}))
			ks = append(ks, k)
			done++
		}
		if f := settle(); f != nil {
			return f
		}
		for _, k := range ks {
			k.Send(sim.EncDisconnect())
		}
		if f := settle(); f != nil {
			return f
		}
		deliverOthers()
	}
	if f := settle(); f != nil {
		return f
	}
	listed := func(when string) *failure {
		for _, n := range cl.Nodes {
			for _, sub := range n.State.Subscriptions().All() {
				if sub.SessionID == sid {
					return &failure{fmt.Sprintf("%s: node %s lists subscription %q of session %s, which ended (%s) before %d other sessions used that filter", when, n.Name, sub.Pattern, sid, c.EndBy, c.Others), false}
				}
			}
			if rs := n.State.Subscriptions().ByPattern([]byte("_default/" + strings.ReplaceAll(strings.ReplaceAll(c.Filter, "+", "x"), "#", "x"))); len(rs) != 0 {
				return &failure{fmt.Sprintf("%s: node %s routes a publish to %d recipient(s) although every subscriber has left", when, n.Name, len(rs)), false}
			}
		}
		return nil
	}
	if f := listed("before the late announcement"); f != nil {
		return f
	}
	for i := range held {
		cl.DeliverGossip(i, n2)
	}
	if f := settle(); f != nil {
		return f
	}
	if f := listed("after the late announcement"); f != nil {
		return f
	}
	cl.FullSync(n1, n2)
	if f := settle(); f != nil {
		return f
	}
	return listed("after a full-state exchange")
}

func checkLate(t ev.TB, c LateCase) {
	ev.WriteCurrent("late-announcement", c)
	f := runLate(c)
	ev.Case(c.Others > 0, c, "late-announcement")
	if f != nil && f.inconclusive {
		ev.Inconclusive(t, f.msg)
		return
	}
	if f != nil {
		ev.Fail(t, "late-announcement", c, "%s", f.msg)
	}
}

func init() {
	kinds["late-announcement"] = func(t ev.TB, raw json.RawMessage) {
		var c LateCase
		ev.Decode(t, raw, &c)
		checkLate(t, c)
	}
}

func TestLateAnnouncement(t *testing.T) {
	var cases []LateCase
	for _, n := range []int{0, 1, 15, 16, 17, 63, 64, 65, 127, 128, 129, 257, ev.Scale(300, 1100)} {
		cases = append(cases, LateCase{Others: n, Filter: []string{"t/#", "dev/+/state", "a"}[n%3], EndBy: []string{"disconnect", "close", "unsub"}[n%3], SameTime: n%2 == 0})
	}
	si, sn := ev.Shard()
	for i, c := range cases {
		if i%sn != si {
			continue
		}
		c := c
		t.Run(fmt.Sprint(c.Others), func(t *testing.T) { checkLate(t, c) })
	}
}
