module verifharness

go 1.23

require (
	github.com/golang/protobuf v1.4.3
	github.com/gorilla/websocket v1.4.1
	github.com/hashicorp/memberlist v0.2.2
	github.com/vx-labs/cluster v1.7.10
	github.com/vx-labs/commitlog v1.2.4
	github.com/vx-labs/mqtt-protocol v5.1.1+incompatible
	github.com/vx-labs/wasp/v4 v4.0.0
	go.uber.org/zap v1.16.0
	google.golang.org/grpc v1.33.2
	pgregory.net/rapid v1.3.0
)

require (
	github.com/MauriceGit/skiplist v0.0.0-20191117202105-643e379adb62 // indirect
	github.com/armon/go-metrics v0.0.0-20180917152333-f0300d1749da // indirect
	github.com/beorn7/perks v1.0.1 // indirect
	github.com/cespare/xxhash/v2 v2.1.1 // indirect
	github.com/coreos/go-systemd v0.0.0-20190321100706-95778dfbb74e // indirect
	github.com/coreos/pkg v0.0.0-20180928190104-399ea9e2e55f // indirect
	github.com/dustin/go-humanize v1.0.0 // indirect
	github.com/gogo/protobuf v1.2.1 // indirect
	github.com/google/btree v1.0.0 // indirect
	github.com/google/uuid v1.1.2 // indirect
	github.com/hashicorp/errwrap v1.0.0 // indirect
	github.com/hashicorp/go-immutable-radix v1.0.0 // indirect
	github.com/hashicorp/go-msgpack v0.5.3 // indirect
	github.com/hashicorp/go-multierror v1.0.0 // indirect
	github.com/hashicorp/go-sockaddr v1.0.2 // indirect
	github.com/hashicorp/golang-lru v0.5.1 // indirect
	github.com/matttproud/golang_protobuf_extensions v1.0.1 // indirect
	github.com/miekg/dns v1.1.26 // indirect
	github.com/pkg/errors v0.9.1 // indirect
	github.com/prometheus/client_golang v1.8.0 // indirect
	github.com/prometheus/client_model v0.2.0 // indirect
	github.com/prometheus/common v0.14.0 // indirect
	github.com/prometheus/procfs v0.2.0 // indirect
	github.com/sean-/seed v0.0.0-20170313163322-e2103e2c3529 // indirect
	github.com/tysontate/gommap v0.0.0-20190103205956-899e1273fb5c // indirect
	github.com/zond/gotomic v0.0.0-20160912093511-c442ca1e4aa6 // indirect
	go.etcd.io/etcd v0.0.0-20200716221620-18dfb9cca345 // indirect
	go.uber.org/atomic v1.6.0 // indirect
	go.uber.org/multierr v1.5.0 // indirect
	golang.org/x/crypto v0.0.0-20200622213623-75b288015ac9 // indirect
	golang.org/x/net v0.0.0-20200625001655-4c5254603344 // indirect
	golang.org/x/sys v0.0.0-20201015000850-e3ed0017c211 // indirect
	golang.org/x/text v0.3.2 // indirect
	google.golang.org/genproto v0.0.0-20200526211855-cb27e3aa2013 // indirect
	google.golang.org/protobuf v1.25.0 // indirect
)

replace github.com/vx-labs/wasp/v4 => /repo
