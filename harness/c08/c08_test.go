// C08 — replicas converge regardless of delivery order, duplication and batching.
//
// Origins with offset clocks perform real local operations; every queued broadcast is one
// update. Fresh replicas (and the origins themselves) then receive the same multiset of
// updates under generated — or, for small sets, all — permutations, duplications and
// batchings, through the real NotifyMsg. Oracle: all nodes list the same state, and it is
// the state of the reference last-writer-wins table built from the decoded updates.
package c08

import (
	"encoding/json"
	"fmt"
	"testing"

	"pgregory.net/rapid"
	"verifharness/internal/dst"
	"verifharness/internal/ev"
)

func TestMain(m *testing.M) { ev.Main(m, "C08") }

type Step struct {
	Node  int    `json:"node"`
	Op    dst.Op `json:"op"`
	Share []int  `json:"share,omitempty"` // other origins that receive this update right away
}

// Delivery is what one receiver gets: batches of update indices (an index may repeat).
type Delivery [][]int

type Case struct {
	Offsets  []int64    `json:"clock_offsets_ns"` // one per origin
	Steps    []Step     `json:"steps"`
	Replicas []Delivery `json:"replicas"`          // explicit schedules for fresh replicas
	Origins  []Delivery `json:"origin_deliveries"` // how each origin receives the full set afterwards
	Enum     bool       `json:"enumerate_all_deliveries,omitempty"`
}

const base = int64(1_600_000_000_000_000_000)

// originPhase runs the steps and returns the origins and the captured updates.
func originPhase(c Case) (origins []*dst.Node, updates [][]byte, seenBy []map[int]bool) {
	for i := range c.Offsets {
		origins = append(origins, dst.NewNode(uint64(i+1)))
		seenBy = append(seenBy, map[int]bool{})
	}
	for i, s := range c.Steps {
		// strictly increasing per node, never equal across nodes (≡ node mod 8)
		dst.SetNow(base + c.Offsets[s.Node] + int64(i+1)*8 + int64(s.Node))
		dst.Apply(origins[s.Node], s.Op)
		for _, m := range origins[s.Node].Drain() {
			updates = append(updates, m)
			seenBy[s.Node][len(updates)-1] = true
			for _, o := range s.Share {
				if o != s.Node && o < len(origins) {
					origins[o].Deliver(m)
					seenBy[o][len(updates)-1] = true
				}
			}
		}
	}
	return origins, updates, seenBy
}

func deliver(n *dst.Node, updates [][]byte, d Delivery) {
	for _, batch := range d {
		if len(batch) == 1 {
			n.Deliver(updates[batch[0]])
			continue
		}
		var ms [][]byte
		for _, i := range batch {
			ms = append(ms, updates[i])
		}
		n.Deliver(dst.Batch(ms...))
	}
}

func covers(d Delivery, m int) bool {
	seen := make([]bool, m)
	for _, b := range d {
		for _, i := range b {
			if i < 0 || i >= m {
				return false
			}
			seen[i] = true
		}
	}
	for _, s := range seen {
		if !s {
			return false
		}
	}
	return true
}

func run(c Case) (msg string, nontrivial bool, excluded bool) {
	defer func() {
		if r := recover(); r != nil {
			msg = fmt.Sprintf("panic: %v", r)
		}
	}()
	defer dst.InstallClock()()
	origins, updates, seenBy := originPhase(c)
	m := len(updates)
	table := dst.NewTable()
	perKey := map[string][]bool{} // key -> presence of each update touching it
	for _, u := range updates {
		es, err := dst.Decode(u)
		if err != nil {
			return "undecodable broadcast", false, false
		}
		for _, en := range es {
			table.Apply(en)
			k := en.Kind + ":" + en.Key
			perKey[k] = append(perKey[k], en.Present())
		}
	}
	if table.Ambiguous {
		return "", false, true // "greatest timestamp" does not single out a winner: outside the statement
	}
	for _, ps := range perKey {
		add, rem := false, false
		for _, p := range ps {
			if p {
				add = true
			} else {
				rem = true
			}
		}
		if len(ps) >= 2 && add && rem {
			nontrivial = true
		}
	}
	want := table.View()
	checkNode := func(name string, n *dst.Node) string {
		if d := dst.Diff(name, dst.ViewOf(n), "reference LWW table", want); d != "" {
			return d
		}
		return ""
	}
	// origins: each receives what it has not seen yet (its own writes and what was shared
	// with it count as received); the schedule may also repeat updates it already has.
	for i, o := range origins {
		d := Delivery{}
		if i < len(c.Origins) {
			d = c.Origins[i]
		}
		got := make([]bool, m)
		for j := range got {
			got[j] = seenBy[i][j]
		}
		for _, b := range d {
			for _, u := range b {
				if u >= 0 && u < m {
					got[u] = true
				}
			}
		}
		for j := 0; j < m; j++ {
			if !got[j] {
				d = append(d, []int{j})
			}
		}
		deliver(o, updates, d)
		if s := checkNode(fmt.Sprintf("origin %d (clock offset %dns, received %v after its own phase)", i+1, c.Offsets[i], d), o); s != "" {
			return s, nontrivial, false
		}
	}
	for i, d := range c.Replicas {
		if !covers(d, m) {
			continue
		}
		r := dst.NewNode(uint64(100 + i))
		deliver(r, updates, d)
		if s := checkNode(fmt.Sprintf("replica %d (delivery %v)", i, d), r); s != "" {
			return s, nontrivial, false
		}
		// idempotence: everything once more, one by one, changes nothing
		for j := 0; j < m; j++ {
			r.Deliver(updates[j])
		}
		if s := checkNode(fmt.Sprintf("replica %d after re-delivering every update", i), r); s != "" {
			return s, nontrivial, false
		}
	}
	if c.Enum && m >= 1 && m <= 5 {
		n := 0
		var failed string
		permute(m, func(perm []int) bool {
			for mask := 0; mask < 1<<(m-1); mask++ { // bit i set = cut after position i
				for dup := -1; dup < m; dup++ { // -1: no duplicate; else element dup delivered again at the end
					d := Delivery{}
					cur := []int{}
					for pos, u := range perm {
						cur = append(cur, u)
						if pos == m-1 || mask&(1<<pos) != 0 {
							d = append(d, cur)
							cur = []int{}
						}
					}
					if dup >= 0 {
						d = append(d, []int{dup})
					}
					r := dst.NewNode(500)
					deliver(r, updates, d)
					n++
					if s := checkNode(fmt.Sprintf("replica (delivery %v)", d), r); s != "" {
						failed = s
						return false
					}
				}
			}
			return true
		})
		ev.Count("deliveries_enumerated", int64(n))
		if failed != "" {
			return failed, nontrivial, false
		}
	}
	return "", nontrivial, false
}

func permute(n int, f func([]int) bool) {
	p := make([]int, n)
	for i := range p {
		p[i] = i
	}
	var rec func(k int) bool
	rec = func(k int) bool {
		if k == n {
			return f(p)
		}
		for i := k; i < n; i++ {
			p[k], p[i] = p[i], p[k]
			if !rec(k + 1) {
				return false
			}
			p[k], p[i] = p[i], p[k]
		}
		return true
	}
	rec(0)
}

func check(t ev.TB, c Case, labels ...string) {
	msg, nt, excluded := run(c)
	if excluded {
		ev.Count("excluded_ambiguous_timestamps", 1)
		labels = append(labels, "excluded:ambiguous")
	}
	skew := false
	for _, o := range c.Offsets {
		if o != 0 {
			skew = true
		}
	}
	if skew {
		labels = append(labels, "clock-skew")
	}
	if c.Enum {
		labels = append(labels, "all-deliveries")
	}
	ev.Case(nt && !excluded, c, labels...)
	if msg != "" {
		ev.Fail(t, "lww-delivery", c, "%s", msg)
	}
}

var kinds = ev.Kinds{"lww-delivery": func(t ev.TB, raw json.RawMessage) {
	var c Case
	ev.Decode(t, raw, &c)
	check(t, c, "replay")
}}

func TestReplayFile(t *testing.T) { ev.ReplayFile(t, kinds) }
func TestRegress(t *testing.T)    { ev.Regress(t, kinds, "testdata/regress") }

var offsets = []int64{0, 0, 1e9, -1e9, 3600e9, -3600e9}

// genOrigin draws the origin phase. Session ids are created at most once (they are random
// UUIDs in the broker), everything else is free.
func genOrigin(t *rapid.T, maxSteps int) Case {
	no := rapid.IntRange(2, 3).Draw(t, "origins")
	c := Case{}
	for i := 0; i < no; i++ {
		c.Offsets = append(c.Offsets, rapid.SampledFrom(offsets).Draw(t, "offset"))
	}
	n := rapid.IntRange(1, maxSteps).Draw(t, "steps")
	created := map[int]bool{}
	for i := 0; i < n; i++ {
		node := rapid.IntRange(0, no-1).Draw(t, "node")
		op := dst.GenOp(t, 3, 3, 3, []uint64{1, 2, 3}, true)
		if op.Op == "sess.create" {
			if created[op.Sess] {
				op = dst.Op{Op: "sess.delete", Sess: op.Sess}
			} else {
				created[op.Sess] = true
			}
		}
		var share []int
		for o := 0; o < no; o++ {
			if o != node && rapid.IntRange(0, 2).Draw(t, "share") > 0 {
				share = append(share, o)
			}
		}
		c.Steps = append(c.Steps, Step{Node: node, Op: op, Share: share})
	}
	return c
}

// genDelivery draws a schedule over m updates: permutation, multiplicity 1–3, batching.
func genDelivery(t *rapid.T, m int) Delivery {
	var seq []int
	for i := 0; i < m; i++ {
		k := 1
		if rapid.IntRange(0, 3).Draw(t, "dupe") == 0 {
			k = rapid.IntRange(2, 3).Draw(t, "times")
		}
		for j := 0; j < k; j++ {
			seq = append(seq, i)
		}
	}
	seq = rapid.Permutation(seq).Draw(t, "order")
	d := Delivery{}
	cur := []int{}
	for _, u := range seq {
		cur = append(cur, u)
		if rapid.IntRange(0, 2).Draw(t, "cut") > 0 {
			d = append(d, cur)
			cur = []int{}
		}
	}
	if len(cur) > 0 {
		d = append(d, cur)
	}
	return d
}

// countUpdates runs the origin phase once to learn how many updates it queues.
func countUpdates(c Case) int {
	defer dst.InstallClock()()
	_, u, _ := originPhase(c)
	return len(u)
}

// TestRandom: 1–12 origin operations, 2–3 replicas with generated schedules.
func TestRandom(t *testing.T) {
	rapid.Check(t, func(t *rapid.T) {
		c := genOrigin(t, 12)
		m := countUpdates(c)
		nr := rapid.IntRange(2, 3).Draw(t, "replicas")
		for i := 0; i < nr; i++ {
			c.Replicas = append(c.Replicas, genDelivery(t, m))
		}
		for range c.Offsets {
			// mostly "only what is missing" (added by the interpreter); sometimes extra repeats
			if rapid.IntRange(0, 3).Draw(t, "originRepeats") == 0 && m > 0 {
				k := rapid.IntRange(1, m).Draw(t, "nrep")
				d := Delivery{}
				for j := 0; j < k; j++ {
					d = append(d, []int{rapid.IntRange(0, m-1).Draw(t, "rep")})
				}
				c.Origins = append(c.Origins, d)
			} else {
				c.Origins = append(c.Origins, Delivery{})
			}
		}
		check(t, c)
	})
}

// TestAllDeliveries: update sets of up to 5 updates; for each, ALL permutations × all
// contiguous batchings × (no duplicate | one element delivered again).
func TestAllDeliveries(t *testing.T) {
	rapid.Check(t, func(t *rapid.T) {
		max := 4
		if rapid.IntRange(0, 4).Draw(t, "five") == 0 {
			max = 5
		}
		c := genOrigin(t, max)
		m := countUpdates(c)
		if m > 5 { // bulk operations may queue nothing or one event; >5 cannot happen with ≤5 steps, but stay safe
			c.Steps = c.Steps[:1]
		}
		c.Enum = true
		check(t, c)
	})
}
