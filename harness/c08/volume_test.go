package c08

// Volume: convergence must not depend on how many entries a replica holds.
//
// One origin performs M different changes of each kind (retained sets on M topics, M session
// announcements, M subscriptions; every 7th entry removed again); its real broadcasts are the
// updates. Three replicas receive all of them - in order, in reverse order, and in a seeded
// shuffle with batches and duplicates - and all must list what the reference last-writer-wins
// table lists (M = 70 000 quick / 300 000 thorough: beyond the 16-bit range and the usual round
// numbers below it).

import (
	"encoding/json"
	"fmt"
	"os"
	"strconv"
	"testing"

	"github.com/vx-labs/mqtt-protocol/packet"
	"verifharness/internal/dst"
	"verifharness/internal/ev"
)

type VolumeCase struct {
	M    int   `json:"m"`
	Seed int64 `json:"seed"`
}

func volumeRun(c VolumeCase) string {
	restore := dst.InstallClock()
	defer restore()
	base := int64(1_700_000_000_000_000_000)
	// three origins share the work, so that no origin holds more than a third of what the
	// replicas end up with (a node that refused its own writes would never broadcast them)
	origins := []*dst.Node{dst.NewNode(11), dst.NewNode(12), dst.NewNode(13)}
	var updates [][]byte
	table := dst.NewTable()
	take := func() {
		for _, o := range origins {
			for _, m := range o.Drain() {
				updates = append(updates, m)
				es, err := dst.Decode(m)
				if err != nil {
					continue
				}
				for _, e := range es {
					table.Apply(e)
				}
			}
		}
	}
	refused := ""
	for i := 0; i < c.M; i++ {
		dst.SetNow(base + int64(i)*100)
		o := origins[i%3]
		if i%7 == 3 {
			o = origins[(i-3)%3] // removals by the origin that holds the entries (i-1, i-2 are removed by another one: fine, LWW)
		}
		if err := o.State.Topics().Set(&packet.Publish{Header: &packet.Header{Retain: true}, Topic: []byte(fmt.Sprintf("mp/v/%d/state", i)), Payload: []byte(fmt.Sprint(i))}); err != nil && refused == "" {
			refused = fmt.Sprintf("origin refused retained topic number %d: %v", i, err)
		}
		o.State.SessionMetadatas().Create(fmt.Sprintf("vs-%d", i), fmt.Sprintf("vc-%d", i), 1000, nil, "mp")
		o.State.Subscriptions().Create(fmt.Sprintf("vs-%d", i), []byte(fmt.Sprintf("mp/w/%d/+", i)), 1)
		if i%7 == 3 {
			dst.SetNow(base + int64(i)*100 + 50)
			o.State.Topics().Delete([]byte(fmt.Sprintf("mp/v/%d/state", i-2)))
			o.State.SessionMetadatas().Delete(fmt.Sprintf("vs-%d", i-1))
			o.State.Subscriptions().Delete(fmt.Sprintf("vs-%d", i-3), []byte(fmt.Sprintf("mp/w/%d/+", i-3)))
		}
		if i%512 == 0 {
			take()
		}
	}
	take()
	if table.Ambiguous {
		return ""
	}
	want := table.View()
	if refused != "" {
		return refused
	}
	x := uint64(c.Seed)*0x9E3779B97F4A7C15 + 1
	next := func() uint64 { x ^= x << 13; x ^= x >> 7; x ^= x << 17; return x }
	orders := map[string]func(r *dst.Node){
		"in order": func(r *dst.Node) {
			for _, m := range updates {
				r.Deliver(m)
			}
		},
		"in reverse order": func(r *dst.Node) {
			for i := len(updates) - 1; i >= 0; i-- {
				r.Deliver(updates[i])
			}
		},
		"shuffled, in batches, with duplicates": func(r *dst.Node) {
			idx := make([]int, len(updates))
			for i := range idx {
				idx[i] = i
			}
			for i := len(idx) - 1; i > 0; i-- {
				j := int(next() % uint64(i+1))
				idx[i], idx[j] = idx[j], idx[i]
			}
			for i := 0; i < len(idx); {
				k := 1 + int(next()%4)
				if i+k > len(idx) {
					k = len(idx) - i
				}
				var batch [][]byte
				for _, j := range idx[i : i+k] {
					batch = append(batch, updates[j])
				}
				if k == 1 {
					r.Deliver(batch[0])
				} else {
					r.Deliver(dst.Batch(batch...))
				}
				if next()%16 == 0 {
					r.Deliver(updates[idx[int(next()%uint64(i+1))]])
				}
				i += k
			}
		},
	}
	for _, name := range []string{"in order", "in reverse order", "shuffled, in batches, with duplicates"} {
		r := dst.NewNode(2)
		orders[name](r)
		if d := dst.Diff("replica that received every update "+name, dst.ViewOf(r), "reference table", want); d != "" {
			return fmt.Sprintf("%d changes of each kind (%d updates): %s", c.M, len(updates), d)
		}
	}
	return ""
}

func init() {
	kinds["volume"] = func(t ev.TB, raw json.RawMessage) {
		var c VolumeCase
		ev.Decode(t, raw, &c)
		if msg := volumeRun(c); msg != "" {
			ev.Fail(t, "volume", c, "%s", msg)
		}
	}
}

func TestVolume(t *testing.T) {
	seed, _ := strconv.ParseInt(os.Getenv("VERIF_SEED"), 10, 64)
	c := VolumeCase{M: ev.Scale(70_000, 300_000), Seed: seed}
	msg := volumeRun(c)
	ev.Case(true, c, "volume")
	if msg != "" {
		// the smallest volume that fails, by bisection over powers of two
		lo := c
		for m := 1 << 8; m < c.M; m <<= 1 {
			if volumeRun(VolumeCase{m + 1, seed}) != "" {
				lo = VolumeCase{m + 1, seed}
				msg = volumeRun(lo)
				break
			}
		}
		ev.Fail(t, "volume", lo, "%s", msg)
	}
}
