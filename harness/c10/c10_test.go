// C10 — a full-state exchange brings a lagging node up to date.
//
// Two nodes run generated histories while a generated subset of the gossip between them
// is lost; then snapshots are exchanged. The oracle keeps, per node, the full
// last-writer-wins table (tombstones included) of everything that node wrote or received.
package c10

import (
	"encoding/json"
	"fmt"
	"sort"
	"testing"

	"pgregory.net/rapid"
	"verifharness/internal/dst"
	"verifharness/internal/ev"
)

func TestMain(m *testing.M) { ev.Main(m, "C10") }

type Step struct {
	Node    int    `json:"node"` // 0 = A, 1 = B
	Op      dst.Op `json:"op"`
	Deliver bool   `json:"deliver"`          // the gossip of this operation reaches the other node
	GapNs   int64  `json:"gap_ns,omitempty"` // time that passes before this operation (default 10 ns)
}

type Case struct {
	Steps               []Step `json:"steps"`
	GapBeforeExchangeNs int64  `json:"gap_before_exchange_ns,omitempty"`
	FreshB              bool   `json:"fresh_b"`  // B is a brand-new node (its steps are skipped)
	Exchange            string `json:"exchange"` // a2b | b2a | ab | ba
	// ClockBase: first stamp of the virtual clock (0 = 1e6; realistic UnixNano values lie beyond 2^53)
	ClockBase int64 `json:"clock_base,omitempty"`
}

func run(c Case) (msg string, nontrivial bool) {
	defer func() {
		if r := recover(); r != nil {
			msg = fmt.Sprintf("panic: %v", r)
		}
	}()
	defer dst.InstallClock()()
	nodes := []*dst.Node{dst.NewNode(1), dst.NewNode(2)}
	tabs := []*dst.Table{dst.NewTable(), dst.NewTable()}
	names := []string{"A", "B"}
	clock := int64(1_000_000)
	if c.ClockBase != 0 {
		clock = c.ClockBase
	}
	lostRemovalOnA := false
	for i, s := range c.Steps {
		if c.FreshB && s.Node == 1 {
			continue
		}
		if s.GapNs > 0 {
			clock += s.GapNs
		} else {
			clock += 10
		}
		dst.SetNow(clock)
		dst.Apply(nodes[s.Node], s.Op)
		for _, m := range nodes[s.Node].Drain() {
			es, err := dst.Decode(m)
			if err != nil {
				return fmt.Sprintf("step %d: undecodable broadcast", i), false
			}
			for _, e := range es {
				tabs[s.Node].Apply(e)
				if s.Deliver && !c.FreshB {
					tabs[1-s.Node].Apply(e)
				}
				if s.Node == 0 && !e.Present() && (!s.Deliver || c.FreshB) {
					lostRemovalOnA = true
				}
			}
			if s.Deliver && !c.FreshB {
				nodes[1-s.Node].Deliver(m)
			}
		}
		// the model must track each node while gossip flows (guards the oracle itself)
		for n := 0; n < 2; n++ {
			if d := dst.Diff(names[n], dst.ViewOf(nodes[n]), "model of "+names[n], tabs[n].View()); d != "" {
				return fmt.Sprintf("step %d (%s on %s): before any exchange: %s", i, s.Op.Op, names[s.Node], d), false
			}
		}
	}
	// the exchange may happen long after the last change (a partition that lasted a day)
	clock += c.GapBeforeExchangeNs
	dst.SetNow(clock)
	va := tabs[0].View()
	nontrivial = lostRemovalOnA && (len(va.Sessions) >= 2 || len(va.Subscriptions) >= 2 || len(va.Retained) >= 2)
	push := func(from, to int) string {
		snap := nodes[from].Snapshot()
		if snap == nil {
			return fmt.Sprintf("%s.LocalState returned nil", names[from])
		}
		es, err := dst.Decode(snap)
		if err != nil {
			return fmt.Sprintf("snapshot of %s does not decode: %v", names[from], err)
		}
		// completeness of the snapshot itself: every entry the sender holds, once
		seen := map[string]int{}
		for _, e := range es {
			seen[e.Kind+":"+e.Key]++
		}
		for _, k := range sortedKeys(tabs[from].M) {
			e := tabs[from].M[k]
			if seen[k] != 1 {
				return fmt.Sprintf("snapshot of %s carries entry %s (present=%v) %d times, want once", names[from], k, e.Present(), seen[k])
			}
		}
		nodes[to].MergeSnapshot(snap)
		want := tabs[to].Clone()
		for _, e := range tabs[from].M {
			want.Apply(e)
		}
		tabs[to] = want
		if d := dst.Diff(names[to]+" after merging "+names[from]+"'s snapshot", dst.ViewOf(nodes[to]), "LWW merge of both histories", want.View()); d != "" {
			return d
		}
		if c.FreshB && to == 1 {
			if d := dst.Diff("fresh B", dst.ViewOf(nodes[1]), "A", dst.ViewOf(nodes[0])); d != "" {
				return d
			}
		}
		return ""
	}
	var order [][2]int
	switch c.Exchange {
	case "a2b":
		order = [][2]int{{0, 1}}
	case "b2a":
		order = [][2]int{{1, 0}}
	case "ab":
		order = [][2]int{{0, 1}, {1, 0}}
	case "ba":
		order = [][2]int{{1, 0}, {0, 1}}
	default:
		return "bad exchange", false
	}
	for _, o := range order {
		if m := push(o[0], o[1]); m != "" {
			return fmt.Sprintf("exchange %s→%s: %s", names[o[0]], names[o[1]], m), nontrivial
		}
	}
	if len(order) == 2 {
		if d := dst.Diff("A", dst.ViewOf(nodes[0]), "B", dst.ViewOf(nodes[1])); d != "" {
			return "after exchanging snapshots in both directions: " + d, nontrivial
		}
	}
	if tabs[0].Ambiguous || tabs[1].Ambiguous {
		return "harness bug: ambiguous timestamps under a strictly increasing clock", nontrivial
	}
	return "", nontrivial
}

func sortedKeys(m map[string]dst.Entry) []string {
	ks := make([]string, 0, len(m))
	for k := range m {
		ks = append(ks, k)
	}
	sort.Strings(ks)
	return ks
}

func check(t ev.TB, c Case, labels ...string) {
	msg, nt := run(c)
	labels = append(labels, "exchange:"+c.Exchange)
	if c.FreshB {
		labels = append(labels, "fresh-b")
	}
	ev.Case(nt, c, labels...)
	if msg != "" {
		ev.Fail(t, "snapshot-exchange", c, "%s", msg)
	}
}

var kinds = ev.Kinds{"snapshot-exchange": func(t ev.TB, raw json.RawMessage) {
	var c Case
	ev.Decode(t, raw, &c)
	check(t, c, "replay")
}}

func TestReplayFile(t *testing.T) { ev.ReplayFile(t, kinds) }
func TestRegress(t *testing.T)    { ev.Regress(t, kinds, "testdata/regress") }

// time between operations: nanoseconds to more than a day (removals must stay in the snapshot
// however old they are: nothing ever tells the sender that every peer has seen them)
var gaps = []int64{0, 0, 0, 1e9, 3600e9, 9 * 3600e9, 30 * 3600e9}

func TestRandom(t *testing.T) {
	rapid.Check(t, func(t *rapid.T) {
		c := Case{
			FreshB:   rapid.IntRange(0, 4).Draw(t, "fresh") == 0,
			Exchange: rapid.SampledFrom([]string{"a2b", "b2a", "ab", "ba"}).Draw(t, "exchange"),
		}
		if c.FreshB {
			c.Exchange = rapid.SampledFrom([]string{"a2b", "ab"}).Draw(t, "exchangeFresh")
		}
		n := rapid.IntRange(1, 24).Draw(t, "n")
		lossy := rapid.IntRange(0, 3).Draw(t, "lossy")
		for i := 0; i < n; i++ {
			node := 0
			if rapid.IntRange(0, 2).Draw(t, "node") == 0 {
				node = 1
			}
			c.Steps = append(c.Steps, Step{
				Node:    node,
				Op:      dst.GenOp(t, 3, 4, 4, []uint64{1, 2}, true),
				Deliver: rapid.IntRange(0, 3).Draw(t, "deliver") >= lossy,
				GapNs:   rapid.SampledFrom(gaps).Draw(t, "gap"),
			})
		}
		c.GapBeforeExchangeNs = rapid.SampledFrom(gaps).Draw(t, "gapBeforeExchange")
		c.ClockBase = rapid.SampledFrom(dst.ClockBases).Draw(t, "clockBase")
		check(t, c)
	})
}
