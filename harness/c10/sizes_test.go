package c10

// Snapshot sizes: a full-state exchange must not depend on how many entries it carries.
//
// Node A grows step by step (per step: one session, two subscriptions, a retained message every
// other step; every fifth step removes an earlier session, subscription and retained message, so
// the snapshot also carries removals). After EVERY step A's snapshot is merged by a fresh node,
// which must then list exactly what A lists, and by a lagging node that never hears gossip and
// lives on snapshots alone. All sizes 1..N are covered: sessions 1..N, subscriptions 2..2N,
// retained 1..N/2 (N = 1100 quick / 4200 thorough), i.e. every batch, page or buffer boundary a
// merge could have below that.

import (
	"encoding/json"
	"fmt"
	"testing"

	"github.com/vx-labs/mqtt-protocol/packet"
	"verifharness/internal/dst"
	"verifharness/internal/ev"
)

type SizesCase struct {
	Steps int `json:"steps"` // the failing size: run steps 1..Steps, judge the last one
}

func sizesRun(upTo int, judge func(step int) bool, onCase func(step int)) string {
	restore := dst.InstallClock()
	defer restore()
	base := int64(1_700_000_000_000_000_000)
	a := dst.NewNode(1)
	lag := dst.NewNode(3)
	for i := 1; i <= upTo; i++ {
		dst.SetNow(base + int64(i)*1000)
		a.State.SessionMetadatas().Create(fmt.Sprintf("zs-%d", i), fmt.Sprintf("zc-%d", i), 1000+int64(i), nil, "mp")
		a.State.Subscriptions().Create(fmt.Sprintf("zs-%d", i), []byte(fmt.Sprintf("mp/z/%d/+", i)), int32(i%3))
		a.State.Subscriptions().Create(fmt.Sprintf("zs-%d", i), []byte(fmt.Sprintf("mp/y/%d/#", i)), int32(i%2))
		if i%2 == 1 {
			a.State.Topics().Set(&packet.Publish{Header: &packet.Header{Retain: true}, Topic: []byte(fmt.Sprintf("mp/r/%d", i)), Payload: []byte(fmt.Sprint("p", i))})
		}
		if i%5 == 0 {
			dst.SetNow(base + int64(i)*1000 + 500)
			k := i / 5 * 2
			a.State.SessionMetadatas().Delete(fmt.Sprintf("zs-%d", k))
			a.State.Subscriptions().Delete(fmt.Sprintf("zs-%d", k), []byte(fmt.Sprintf("mp/z/%d/+", k)))
			a.State.Topics().Delete([]byte(fmt.Sprintf("mp/r/%d", k-1)))
		}
		a.Drain() // gossip is lost
		if i != upTo && (judge == nil || !judge(i)) {
			continue
		}
		snap := a.Snapshot()
		va := dst.ViewOf(a)
		fresh := dst.NewNode(2)
		fresh.MergeSnapshot(snap)
		if onCase != nil {
			onCase(i)
		}
		if d := dst.Diff("A", va, "a fresh node after merging A's snapshot", dst.ViewOf(fresh)); d != "" {
			return fmt.Sprintf("after %d steps (%d sessions, %d subscriptions, %d retained listed on A): %s", i, len(va.Sessions), len(va.Subscriptions), len(va.Retained), d)
		}
		lag.MergeSnapshot(snap)
		if d := dst.Diff("A", va, "a node that lives on A's snapshots alone", dst.ViewOf(lag)); d != "" {
			return fmt.Sprintf("after %d steps (%d sessions, %d subscriptions, %d retained listed on A): %s", i, len(va.Sessions), len(va.Subscriptions), len(va.Retained), d)
		}
	}
	return ""
}

func init() {
	kinds["snapshot-size"] = func(t ev.TB, raw json.RawMessage) {
		var c SizesCase
		ev.Decode(t, raw, &c)
		if msg := sizesRun(c.Steps, nil, nil); msg != "" {
			ev.Fail(t, "snapshot-size", c, "%s", msg)
		}
	}
}

func TestSizes(t *testing.T) {
	n := ev.Scale(1100, 4200)
	last := 0
	si, sn := ev.Shard()
	msg := sizesRun(n, func(step int) bool { return step%sn == si }, func(step int) {
		last = step
		ev.CaseKey(true, fmt.Sprint("size", step), func() interface{} { return SizesCase{step} }, "snapshot-size")
	})
	if msg != "" {
		ev.Fail(t, "snapshot-size", SizesCase{last}, "%s", msg)
	}
	ev.Exhaustive(fmt.Sprintf("snapshot sizes: every size from 1 to %d sessions / 2 to %d subscriptions / 1 to %d retained messages (with removals), merged by a fresh node and by a node living on snapshots alone", n, 2*n, n/2))
}

// TestBigSnapshot: one snapshot of 70 000 (thorough 300 000) entries of each kind, a seventh of
// them removed again, merged by a fresh node and by a node that had received every other gossip
// message: both list what the sender lists.
func TestBigSnapshot(t *testing.T) {
	restore := dst.InstallClock()
	defer restore()
	m := ev.Scale(70_000, 300_000)
	base := int64(1_700_000_000_000_000_000)
	a, half := dst.NewNode(1), dst.NewNode(3)
	k := 0
	for i := 0; i < m; i++ {
		dst.SetNow(base + int64(i)*100)
		a.State.Topics().Set(&packet.Publish{Header: &packet.Header{Retain: true}, Topic: []byte(fmt.Sprintf("mp/b/%d/s", i)), Payload: []byte(fmt.Sprint(i))})
		a.State.SessionMetadatas().Create(fmt.Sprintf("bs-%d", i), fmt.Sprintf("bc-%d", i), 1000, nil, "mp")
		a.State.Subscriptions().Create(fmt.Sprintf("bs-%d", i), []byte(fmt.Sprintf("mp/c/%d/+", i)), 1)
		if i%7 == 3 {
			dst.SetNow(base + int64(i)*100 + 50)
			a.State.Topics().Delete([]byte(fmt.Sprintf("mp/b/%d/s", i-2)))
			a.State.SessionMetadatas().Delete(fmt.Sprintf("bs-%d", i-1))
			a.State.Subscriptions().Delete(fmt.Sprintf("bs-%d", i-3), []byte(fmt.Sprintf("mp/c/%d/+", i-3)))
		}
		if i%256 == 0 {
			for _, msg := range a.Drain() {
				k++
				if k%2 == 0 {
					half.Deliver(msg)
				}
			}
		}
	}
	a.Drain()
	snap := a.Snapshot()
	va := dst.ViewOf(a)
	c := map[string]interface{}{"scenario": "big snapshot", "entries_per_kind": m, "snapshot_bytes": len(snap)}
	ev.Case(true, c, "big-snapshot")
	fresh := dst.NewNode(2)
	fresh.MergeSnapshot(snap)
	if d := dst.Diff("A", va, "a fresh node after merging A's snapshot", dst.ViewOf(fresh)); d != "" {
		ev.Fail(t, "big-snapshot", c, "%d entries of each kind (%d bytes): %s", m, len(snap), d)
		return
	}
	half.MergeSnapshot(snap)
	if d := dst.Diff("A", va, "a node that had received every other gossip message, after merging A's snapshot", dst.ViewOf(half)); d != "" {
		ev.Fail(t, "big-snapshot", c, "%d entries of each kind (%d bytes): %s", m, len(snap), d)
	}
}
