package c15

import (
	"context"
	"encoding/hex"
	"encoding/json"
	"fmt"
	"os"
	"path/filepath"
	"sort"
	"sync"
	"sync/atomic"
	"testing"
	"time"

	"github.com/vx-labs/mqtt-protocol/packet"
	"github.com/vx-labs/wasp/v4/wasp/messages"
	"verifharness/internal/ev"
)

// Crash images. A SIGKILL leaves on disk whatever the consumer-state file (a shared mapping)
// holds at that instant. Instead of waiting for a kill to fall between two particular
// instructions, a consumer runs at full speed in this process while sampler goroutines read
// the state file through the file system over and over: every image seen is a state the file
// really was in, i.e. what a kill at that instant would have left. Each distinct image is then
// restarted on a pristine copy of the log. Oracle (as for real kills): with c_lo / c_hi the
// number of callbacks that had returned before / after the sample was taken, the restart
// resumes no earlier than c_lo-2 (the entry completed last may be replayed, and so may the
// one whose callback had returned while its position was not yet written) and no later than
// c_hi (nothing is skipped).

type ImageCase struct {
	Entries int    `json:"entries"`
	Image   string `json:"image"` // hex of the state file
	CLo     int    `json:"c_lo"`
	CHi     int    `json:"c_hi"`
}

func init() {
	kinds["crash-image"] = func(t ev.TB, raw json.RawMessage) {
		var c ImageCase
		ev.Decode(t, raw, &c)
		dir, err := os.MkdirTemp("", "c15img")
		if err != nil {
			t.Fatalf("VERIF-INCONCLUSIVE %v", err)
		}
		defer os.RemoveAll(dir)
		if err := fillLog(dir, c.Entries); err != nil {
			t.Fatalf("VERIF-INCONCLUSIVE %v", err)
		}
		ev.Case(true, c, "replay")
		if msg := restartOn(dir, c); msg != "" {
			ev.Fail(t, "crash-image", c, "%s", msg)
		}
	}
}

func fillLog(dir string, n int) error {
	l, err := messages.New(dir)
	if err != nil {
		return err
	}
	defer l.Close()
	for i := 0; i < n; i++ {
		if err := l.Append(&packet.Publish{Header: &packet.Header{}, Topic: []byte("t"), Payload: []byte(fmt.Sprintf("m%d", i))}); err != nil {
			return err
		}
	}
	return nil
}

const consumerName = "publish_distributor"

// restartOn starts a consumer on dir with the state file replaced by the image and judges the
// first offset handed over.
func restartOn(dir string, c ImageCase) string {
	img, _ := hex.DecodeString(c.Image)
	if err := os.WriteFile(filepath.Join(dir, consumerName+".state"), img, 0650); err != nil {
		return ""
	}
	l, err := messages.New(dir)
	if err != nil {
		return "restart on the crash image: " + err.Error()
	}
	defer l.Close()
	ctx, cancel := context.WithCancel(context.Background())
	first := int64(-1)
	done := make(chan error, 1)
	go func() {
		done <- l.Consume(ctx, consumerName, func(o uint64, p *packet.Publish) error {
			if atomic.CompareAndSwapInt64(&first, -1, int64(o)) {
				cancel()
			}
			return context.Canceled
		})
	}()
	select {
	case <-done:
	case <-time.After(20 * time.Second):
		cancel()
		<-done
	}
	cancel()
	f := atomic.LoadInt64(&first)
	if c.CHi >= c.Entries && f == -1 {
		return "" // everything had been handed over: nothing left to hand
	}
	switch {
	case f == -1:
		return fmt.Sprintf("restart on crash image %s (taken while between %d and %d of %d callbacks had returned): nothing was handed over within 20 s", c.Image, c.CLo, c.CHi, c.Entries)
	case int(f) > c.CHi:
		return fmt.Sprintf("restart on crash image %s (taken while between %d and %d callbacks had returned): resumed at offset %d, so offsets %d..%d were never handed over completely", c.Image, c.CLo, c.CHi, f, c.CHi, f-1)
	case int(f) < c.CLo-2:
		return fmt.Sprintf("restart on crash image %s (taken while between %d and %d callbacks had returned): resumed at offset %d and replayed %d entries whose callback had already returned (at most the one being processed may be replayed)", c.Image, c.CLo, c.CHi, f, c.CLo-int(f))
	}
	return ""
}

func TestCrashImages(t *testing.T) {
	entries := 1400 // below the first truncation: the log files never change while they are read
	rounds := ev.Scale(30, 300)
	base, err := os.MkdirTemp("", "c15images")
	if err != nil {
		t.Fatalf("VERIF-INCONCLUSIVE %v", err)
	}
	defer os.RemoveAll(base)
	pristine := filepath.Join(base, "pristine")
	os.MkdirAll(pristine, 0750)
	if err := fillLog(pristine, entries); err != nil {
		t.Fatalf("VERIF-INCONCLUSIVE %v", err)
	}
	copyLog := func(dst string) error {
		return filepath.Walk(pristine, func(p string, info os.FileInfo, err error) error {
			if err != nil {
				return err
			}
			rel, _ := filepath.Rel(pristine, p)
			if info.IsDir() {
				return os.MkdirAll(filepath.Join(dst, rel), 0750)
			}
			b, err := os.ReadFile(p)
			if err != nil {
				return err
			}
			return os.WriteFile(filepath.Join(dst, rel), b, 0650)
		})
	}
	images := map[string]ImageCase{}
	var mu sync.Mutex
	samples := int64(0)
	for r := 0; r < rounds; r++ {
		dir := filepath.Join(base, fmt.Sprintf("run%d", r))
		if err := copyLog(dir); err != nil {
			t.Fatalf("VERIF-INCONCLUSIVE %v", err)
		}
		l, err := messages.New(dir)
		if err != nil {
			t.Fatalf("VERIF-INCONCLUSIVE %v", err)
		}
		var returned int64
		ctx, cancel := context.WithCancel(context.Background())
		stop := int32(0)
		var wg sync.WaitGroup
		statePath := filepath.Join(dir, consumerName+".state")
		for s := 0; s < 6; s++ {
			wg.Add(1)
			go func() {
				defer wg.Done()
				var fd *os.File
				buf := make([]byte, 64)
				for atomic.LoadInt32(&stop) == 0 {
					if fd == nil {
						if fd, _ = os.Open(statePath); fd == nil {
							continue
						}
					}
					lo := atomic.LoadInt64(&returned)
					n, _ := fd.ReadAt(buf, 0)
					hi := atomic.LoadInt64(&returned)
					atomic.AddInt64(&samples, 1)
					if n == 0 {
						continue
					}
					k := hex.EncodeToString(buf[:n])
					mu.Lock()
					if old, ok := images[k]; !ok || int(hi-lo) < old.CHi-old.CLo {
						images[k] = ImageCase{Entries: entries, Image: k, CLo: int(lo), CHi: int(hi)}
					}
					mu.Unlock()
				}
				if fd != nil {
					fd.Close()
				}
			}()
		}
		done := make(chan error, 1)
		go func() {
			done <- l.Consume(ctx, consumerName, func(o uint64, p *packet.Publish) error {
				if atomic.AddInt64(&returned, 1) == int64(entries) {
					defer cancel()
				}
				return nil
			})
		}()
		select {
		case <-done:
		case <-time.After(60 * time.Second):
			cancel()
			<-done
		}
		cancel()
		atomic.StoreInt32(&stop, 1)
		wg.Wait()
		l.Close()
		os.RemoveAll(dir)
	}
	ev.Count("state_file_samples", atomic.LoadInt64(&samples))
	var keys []string
	for k := range images {
		keys = append(keys, k)
	}
	sort.Strings(keys)
	// restart on every distinct image, 12 at a time, each worker on its own copy of the log
	type res struct {
		c   ImageCase
		msg string
	}
	work := make(chan ImageCase)
	out := make(chan res, len(keys))
	var wg sync.WaitGroup
	for wkr := 0; wkr < 12; wkr++ {
		dir := filepath.Join(base, fmt.Sprintf("restart%d", wkr))
		if err := copyLog(dir); err != nil {
			t.Fatalf("VERIF-INCONCLUSIVE %v", err)
		}
		wg.Add(1)
		go func() {
			defer wg.Done()
			for c := range work {
				out <- res{c, restartOn(dir, c)}
			}
		}()
	}
	for _, k := range keys {
		work <- images[k]
	}
	close(work)
	wg.Wait()
	close(out)
	var bad []res
	for r := range out {
		ev.Case(r.c.CLo > 2, r.c, "crash-image")
		if r.msg != "" {
			bad = append(bad, r)
		}
	}
	sort.Slice(bad, func(i, j int) bool { return bad[i].c.Image < bad[j].c.Image })
	if len(bad) > 0 {
		ev.Fail(t, "crash-image", bad[0].c, "%s (%d of %d distinct images fail; %d samples)", bad[0].msg, len(bad), len(keys), samples)
	}
}
