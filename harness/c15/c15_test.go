// C15 — message-log consumption survives crashes without skipping messages.
//
// The consuming process is a real child process (this test binary re-executed with
// C15_CHILD set) that opens the real message log, runs the real SchedulePublishes on it and
// appends messages; it is killed with SIGKILL at generated points — from inside (as the
// first / last thing that happens around the hand-over of offset k) or by the parent after a
// delay — or stopped gracefully when idle, over several rounds on the same directory.
package c15

import (
	"bufio"
	"bytes"
	"context"
	"encoding/json"
	"fmt"
	"os"
	"os/exec"
	"path/filepath"
	"strconv"
	"strings"
	"sync"
	"syscall"
	"testing"
	"time"

	"github.com/vx-labs/commitlog/stream"
	"github.com/vx-labs/mqtt-protocol/packet"
	"github.com/vx-labs/wasp/v4/wasp"
	"github.com/vx-labs/wasp/v4/wasp/messages"
	"go.uber.org/zap"
	"pgregory.net/rapid"
	"verifharness/internal/ev"
)

func TestMain(m *testing.M) {
	if os.Getenv("C15_CHILD") != "" {
		childMain()
		os.Exit(0)
	}
	ev.Main(m, "C15")
}

// ---- child ------------------------------------------------------------------------------------

type childLog struct {
	real        messages.Log
	events      *os.File
	mu          *sync.Mutex // held by the appender around every Append; taken before a self-kill
	crash       string      // "", "enter:k", "exit:k"
	lastX       int64
	xmu         sync.Mutex
	appendsDone chan struct{}
}

func (l *childLog) say(format string, a ...interface{}) {
	l.events.WriteString(fmt.Sprintf(format, a...)) // one write(2) per line, unbuffered
}
func (l *childLog) Close() error                          { return l.real.Close() }
func (l *childLog) Append(p *packet.Publish) error        { return l.real.Append(p) }
func (l *childLog) Get(o uint64) (*packet.Publish, error) { return l.real.Get(o) }
func (l *childLog) Stream(ctx context.Context, c stream.Consumer, f func(*packet.Publish) error) error {
	return l.real.Stream(ctx, c, f)
}
func (l *childLog) die() {
	l.mu.Lock() // no Append is in progress from here on
	syscall.Kill(os.Getpid(), syscall.SIGKILL)
	select {}
}
func (l *childLog) Consume(ctx context.Context, name string, f func(uint64, *packet.Publish) error) error {
	return l.real.Consume(ctx, name, func(off uint64, p *packet.Publish) error {
		head := p.Payload
		if i := bytes.IndexByte(head, '|'); i >= 0 {
			head = head[:i] // large payloads: "msg-N|xxxx…"; only the head identifies the message
		}
		l.say("E %d %s %d\n", off, head, len(p.Payload))
		if l.crash == fmt.Sprintf("enter:%d", off) {
			l.die()
		}
		if l.crash == fmt.Sprintf("stall:%d", off) {
			// the scheduler is stuck on this message (back-pressure) while the appends go on; the
			// process is killed once they are done
			<-l.appendsDone
			l.die()
		}
		err := f(off, p)
		if l.crash == fmt.Sprintf("exit:%d", off) {
			l.die()
		}
		l.say("X %d\n", off)
		l.xmu.Lock()
		l.lastX = int64(off)
		l.xmu.Unlock()
		return err
	})
}

// schedWriter stands in for the writer: SchedulePublishes only calls Schedule.
type schedWriter struct {
	wasp.Writer
	n int64
}

func (w *schedWriter) Schedule(ctx context.Context, offset uint64)                        { w.n++ }
func (w *schedWriter) Send(ctx context.Context, r []string, q []int32, p *packet.Publish) {}

func childMain() {
	dir := os.Getenv("C15_DIR")
	appendN, _ := strconv.Atoi(os.Getenv("C15_APPEND"))
	start, _ := strconv.Atoi(os.Getenv("C15_START"))
	crash := os.Getenv("C15_CRASH")
	events, err := os.OpenFile(os.Getenv("C15_EVENTS"), os.O_WRONLY|os.O_APPEND|os.O_CREATE, 0644)
	if err != nil {
		os.Exit(3)
	}
	real, err := messages.New(dir)
	if err != nil {
		events.WriteString("ERR open " + err.Error() + "\n")
		os.Exit(3)
	}
	mu := &sync.Mutex{}
	l := &childLog{real: real, events: events, mu: mu, crash: crash, lastX: -1, appendsDone: make(chan struct{})}
	payloadKB, _ := strconv.Atoi(os.Getenv("C15_PAYLOAD_KB"))
	filler := ""
	if payloadKB > 0 {
		filler = "|" + strings.Repeat("x", payloadKB*1024)
	}
	if strings.HasPrefix(crash, "delay") {
		l.crash = ""
	}
	l.say("S\n")
	ctx, cancel := context.WithCancel(wasp.StoreLogger(context.Background(), zap.NewNop()))
	done := make(chan struct{})
	go func() {
		wasp.SchedulePublishes(1, &schedWriter{}, l)(ctx)
		close(done)
	}()
	for i := 0; i < appendN; i++ {
		mu.Lock()
		err := l.Append(&packet.Publish{Header: &packet.Header{}, Topic: []byte("t"), Payload: []byte(fmt.Sprintf("msg-%d", start+i) + filler)})
		if err == nil {
			l.say("a %d\n", start+i) // inside the critical section: a self-kill never separates an append from its record
		}
		mu.Unlock()
		if err != nil {
			l.say("ERR append %v\n", err)
			os.Exit(3)
		}
	}
	total := start + appendN
	l.say("A %d\n", total)
	close(l.appendsDone)
	if strings.HasPrefix(crash, "delay") || strings.HasPrefix(crash, "stall") {
		select {} // the parent kills us / the stalled consumer does
	}
	// graceful: stop when idle
	deadline := time.Now().Add(20 * time.Second)
	for time.Now().Before(deadline) {
		l.xmu.Lock()
		x := l.lastX
		l.xmu.Unlock()
		if total == 0 || x >= int64(total-1) {
			break
		}
		time.Sleep(2 * time.Millisecond)
	}
	l.xmu.Lock()
	caughtUp := total == 0 || l.lastX >= int64(total-1)
	l.xmu.Unlock()
	cancel()
	select {
	case <-done:
	case <-time.After(10 * time.Second):
	}
	l.Close()
	if caughtUp {
		l.say("G\n")
	} else {
		l.say("STUCK\n")
	}
}

// ---- parent ----------------------------------------------------------------------------------

// Round: append Append messages in this incarnation; Crash ∈ none | enter:<k> | exit:<k> |
// delay:<ms> (parent SIGKILL that long after the child reported its appends done).
type Round struct {
	Append int    `json:"append"`
	Crash  string `json:"crash"`
	// PayloadKB: size of each message appended in this round (0 = a few bytes). Large volumes
	// matter because anything in the log layer that looks at bytes rather than at entries
	// (segment sizes, retention) only shows with them.
	PayloadKB int `json:"payload_kb,omitempty"`
}

type Case struct {
	Rounds []Round `json:"rounds"`
	// EmptyOffsetFile: the very first start was killed between creating the consumer's offset
	// file and sizing it (the file exists with length 0 when round 0 starts).
	EmptyOffsetFile bool `json:"empty_offset_file,omitempty"`
}

type failure struct {
	msg          string
	inconclusive bool
}

type incarnation struct {
	E        []int64
	payload  map[int64]string
	lastX    int64
	total    int
	appended int
	mode     string
	graceful bool
}

func runChild(dir, events string, start int, r Round) (*incarnation, *failure) {
	os.Remove(events)
	cmd := exec.Command(os.Args[0], "-test.run", "^$")
	cmd.Env = append(os.Environ(), "C15_CHILD=1", "C15_DIR="+dir, "C15_EVENTS="+events, "C15_APPEND="+strconv.Itoa(r.Append), "C15_START="+strconv.Itoa(start), "C15_CRASH="+r.Crash, "C15_PAYLOAD_KB="+strconv.Itoa(r.PayloadKB), "VERIF_OUT=")
	if err := cmd.Start(); err != nil {
		return nil, &failure{"cannot start the child: " + err.Error(), true}
	}
	waitCh := make(chan error, 1)
	go func() { waitCh <- cmd.Wait() }()
	if strings.HasPrefix(r.Crash, "delay:") || strings.HasPrefix(r.Crash, "stall:") {
		// stall: the child kills itself when its appends are done, if the consumer ever reached
		// the stalling offset; otherwise the parent does, generously later
		ms := 3000
		if strings.HasPrefix(r.Crash, "delay:") {
			ms, _ = strconv.Atoi(strings.TrimPrefix(r.Crash, "delay:"))
		}
		deadline := time.Now().Add(60 * time.Second)
		for time.Now().Before(deadline) {
			b, _ := os.ReadFile(events)
			if strings.Contains(string(b), "\nA ") {
				break
			}
			time.Sleep(time.Millisecond)
		}
		select {
		case err := <-waitCh: // already gone (a stalled consumer kills the process itself)
			waitCh <- err
		case <-time.After(time.Duration(ms) * time.Millisecond):
			cmd.Process.Signal(syscall.SIGKILL)
		}
	}
	select {
	case <-waitCh:
	case <-time.After(90 * time.Second):
		cmd.Process.Kill()
		return nil, &failure{"child did not finish within 90 s", true}
	}
	f, err := os.Open(events)
	if err != nil {
		return nil, &failure{"no events file: " + err.Error(), true}
	}
	defer f.Close()
	inc := &incarnation{lastX: -1, payload: map[int64]string{}, mode: r.Crash}
	sc := bufio.NewScanner(f)
	for sc.Scan() {
		p := strings.Fields(sc.Text())
		if len(p) == 0 {
			continue
		}
		switch p[0] {
		case "E":
			k, _ := strconv.ParseInt(p[1], 10, 64)
			inc.E = append(inc.E, k)
			if len(p) > 2 {
				inc.payload[k] = p[2]
			}
		case "X":
			k, _ := strconv.ParseInt(p[1], 10, 64)
			inc.lastX = k
		case "a":
			inc.appended++
		case "A":
			inc.total, _ = strconv.Atoi(p[1])
		case "G":
			inc.graceful = true
		case "ERR":
			return nil, &failure{"child: " + sc.Text(), true}
		}
	}
	return inc, nil
}

func run(c Case) (f *failure, nontrivial bool) {
	root, err := os.MkdirTemp("", "c15")
	if err != nil {
		return &failure{err.Error(), true}, false
	}
	defer os.RemoveAll(root)
	dir := filepath.Join(root, "data")
	os.MkdirAll(dir, 0755)
	events := filepath.Join(root, "events")
	if c.EmptyOffsetFile {
		os.WriteFile(filepath.Join(dir, "publish_distributor.state"), nil, 0650)
	}
	total := 0
	handed := map[int64]bool{}
	prevLastX := int64(-1) // last offset known to have been completely handed in an earlier incarnation
	prevStart := int64(-1)
	everHanded := false
	rounds := append([]Round{}, c.Rounds...)
	rounds = append(rounds, Round{Append: 0, Crash: "none"}) // a final incarnation that idles: everything must have been handed by then
	for ri, r := range rounds {
		inc, f := runChild(dir, events, total, r)
		if f != nil {
			return f, nontrivial
		}
		total += inc.appended // a killed incarnation may not have appended everything it was asked to
		if strings.HasPrefix(r.Crash, "enter:") || strings.HasPrefix(r.Crash, "exit:") || strings.HasPrefix(r.Crash, "stall:") {
			k, _ := strconv.Atoi(r.Crash[strings.Index(r.Crash, ":")+1:])
			if k > 0 && k < total-1 {
				nontrivial = true
			}
		}
		if total > 1500 {
			nontrivial = true
		}
		// in-order, consecutive hand-over within the incarnation
		for i := 1; i < len(inc.E); i++ {
			if inc.E[i] != inc.E[i-1]+1 {
				return &failure{fmt.Sprintf("round %d: offsets handed out of order / with a gap: … %d, %d …", ri, inc.E[i-1], inc.E[i]), false}, nontrivial
			}
		}
		for _, k := range inc.E {
			if want := fmt.Sprintf("msg-%d", k); inc.payload[k] != want {
				return &failure{fmt.Sprintf("round %d: offset %d was handed with payload %q, the message appended there is %q", ri, k, inc.payload[k], want), false}, nontrivial
			}
			handed[k] = true
		}
		if len(inc.E) > 0 {
			start := inc.E[0]
			if !everHanded && start != 0 {
				return &failure{fmt.Sprintf("round %d: the first offset ever handed is %d, not 0", ri, start), false}, nontrivial
			}
			if everHanded {
				// nothing skipped: resume no later than the first offset not completely handed
				if start > prevLastX+1 {
					return &failure{fmt.Sprintf("round %d: resumed at offset %d although the previous incarnations completed only up to %d (offsets in between were skipped)", ri, start, prevLastX), false}, nontrivial
				}
				// bounded replay: at most the last completed one and the one in progress again
				low := prevLastX - 1
				if low < prevStart {
					low = prevStart
				}
				if prevLastX >= 0 && start < low {
					return &failure{fmt.Sprintf("round %d: resumed at offset %d although offsets up to %d had been completely handed (replays more than the message in progress)", ri, start, prevLastX), false}, nontrivial
				}
			}
			everHanded = true
			prevStart = start
		}
		if inc.lastX > prevLastX {
			prevLastX = inc.lastX
		}
		if r.Crash == "none" && !inc.graceful {
			return &failure{fmt.Sprintf("round %d: the child did not stop gracefully (consumer stuck?) — handed %d offsets, last completed %d of %d", ri, len(inc.E), inc.lastX, total), false}, nontrivial
		}
	}
	for k := int64(0); k < int64(total); k++ {
		if !handed[k] {
			return &failure{fmt.Sprintf("offset %d of %d was never handed to the scheduler in any incarnation", k, total), false}, nontrivial
		}
	}
	return nil, nontrivial
}

func check(t ev.TB, c Case, labels ...string) {
	f, nt := run(c)
	if f != nil && !f.inconclusive {
		// confirm by re-execution. Where a parent-timed kill lands is not reproducible, so a
		// wrong resume position after such a kill is kept without confirmation; everything
		// else must show again.
		again := false
		for i := 0; i < 2 && !again; i++ {
			if f2, _ := run(c); f2 != nil && !f2.inconclusive {
				again = true
			}
		}
		hasDelay := false
		for _, r := range c.Rounds {
			if strings.HasPrefix(r.Crash, "delay") {
				hasDelay = true
			}
		}
		if !again && !(hasDelay && strings.Contains(f.msg, "resumed at")) {
			ev.Count("unconfirmed_failures", 1)
			f = nil
		}
	}
	for _, r := range c.Rounds {
		labels = append(labels, "crash:"+strings.Split(r.Crash, ":")[0])
	}
	ev.Case(nt, c, labels...)
	ev.Count("child_processes", int64(len(c.Rounds)+1))
	if f != nil && f.inconclusive {
		ev.Inconclusive(t, f.msg)
		return
	}
	if f != nil {
		ev.Fail(t, "crash-restart", c, "%s", f.msg)
	}
}

var kinds = ev.Kinds{"crash-restart": func(t ev.TB, raw json.RawMessage) {
	var c Case
	ev.Decode(t, raw, &c)
	check(t, c, "replay")
}}

func TestReplayFile(t *testing.T) { ev.ReplayFile(t, kinds) }
func TestRegress(t *testing.T)    { ev.Regress(t, kinds, "testdata/regress") }

// TestEnumSmall: one crashing incarnation on logs of 1..12 messages with the kill at EVERY
// position (entering / leaving the hand-over of offset k), then a second crashing
// incarnation right at the resume point, then the idle one.
func TestEnumSmall(t *testing.T) {
	si, sn := ev.Shard()
	idx := 0
	lens := []int{1, 2, 3, 9, 10, 11, 12}
	if ev.Tier() == "thorough" {
		lens = []int{1, 2, 3, 4, 5, 8, 9, 10, 11, 12, 19, 20, 21, 30}
	}
	for _, n := range lens {
		for k := 0; k < n; k++ {
			for _, where := range []string{"enter", "exit"} {
				idx++
				if idx%sn != si {
					continue
				}
				c := Case{Rounds: []Round{{Append: n, Crash: fmt.Sprintf("%s:%d", where, k)}, {Append: 2, Crash: fmt.Sprintf("enter:%d", k)}}}
				check(t, c, "enum-small")
			}
		}
	}
	ev.Exhaustive(fmt.Sprintf("logs of %v messages (shard %d/%d): SIGKILL entering and leaving the hand-over of EVERY offset k, followed by a second kill at the resume point", lens, si, sn))
}

func TestRandom(t *testing.T) {
	rapid.Check(t, func(t *rapid.T) {
		c := Case{}
		nr := rapid.IntRange(1, 5).Draw(t, "rounds")
		// restart storms: many incarnations in a row that make no progress (an idle node
		// restarted again and again, or killed before its first hand-over), then work arrives
		idleHeavy := rapid.IntRange(0, 5).Draw(t, "idleHeavy") == 0
		if idleHeavy {
			nr = rapid.IntRange(6, 12).Draw(t, "roundsIdleHeavy")
		}
		total := 0
		for i := 0; i < nr; i++ {
			var a int
			kind := rapid.IntRange(0, 9).Draw(t, "appendKind")
			if idleHeavy && i > 0 && i < nr-1 && rapid.IntRange(0, 9).Draw(t, "idleRound") > 0 {
				kind = 0
			}
			switch kind {
			case 0:
				a = 0
			case 1, 2, 3:
				a = rapid.SampledFrom([]int{1, 9, 10, 11, 25}).Draw(t, "small")
			case 4, 5:
				// straddle a segment / truncation boundary
				b := rapid.SampledFrom([]int{500, 1000, 1500, 2000}).Draw(t, "boundary")
				a = b - total + rapid.IntRange(-5, 15).Draw(t, "delta")
				if a < 0 {
					a = 3
				}
			default:
				a = rapid.IntRange(0, 40).Draw(t, "n")
			}
			total += a
			r := Round{Append: a}
			switch rapid.IntRange(0, 9).Draw(t, "crashKind") {
			case 0, 1:
				r.Crash = "none"
			case 2, 3, 4:
				k := 0
				if total > 0 {
					k = rapid.IntRange(maxInt(0, total-a-2), total-1).Draw(t, "k")
				}
				r.Crash = fmt.Sprintf("enter:%d", k)
			case 5, 6, 7:
				k := 0
				if total > 0 {
					k = rapid.IntRange(maxInt(0, total-a-2), total-1).Draw(t, "k")
				}
				r.Crash = fmt.Sprintf("exit:%d", k)
			default:
				r.Crash = fmt.Sprintf("delay:%d", rapid.SampledFrom([]int{0, 1, 5, 50, 150}).Draw(t, "delay"))
			}
			c.Rounds = append(c.Rounds, r)
		}
		c.EmptyOffsetFile = rapid.IntRange(0, 7).Draw(t, "emptyOffsetFile") == 0
		check(t, c)
	})
}

func maxInt(a, b int) int {
	if a > b {
		return a
	}
	return b
}

// TestLargeBacklog: the scheduler is stuck on an early message while several hundred large
// messages (tens of MiB in all, more than one segment) are appended; the process is killed;
// the next incarnation must be handed every one of them. Then the same once more on top.
func TestLargeBacklog(t *testing.T) {
	type sc struct{ n, kb, k int }
	scs := []sc{{560, 200, 3}}
	if ev.Tier() == "thorough" {
		scs = append(scs, sc{1100, 128, 501}, sc{520, 300, 0}, sc{2100, 40, 7})
	}
	// a long backlog of small messages (more than 5000 entries behind), then kills in the middle
	// of the batches while the consumer catches up: a restart still replays at most the message
	// in progress
	for _, k := range []int{17, 5004} {
		check(t, Case{Rounds: []Round{{Append: 5300, Crash: "stall:2"}, {Append: 0, Crash: fmt.Sprintf("exit:%d", k)}, {Append: 0, Crash: fmt.Sprintf("enter:%d", k+26)}, {Append: 3, Crash: "none"}}}, "long-backlog")
	}
	for _, x := range scs {
		c := Case{Rounds: []Round{{Append: x.n, PayloadKB: x.kb, Crash: fmt.Sprintf("stall:%d", x.k)}, {Append: 30, Crash: "none"}, {Append: 510, PayloadKB: x.kb / 2, Crash: fmt.Sprintf("stall:%d", x.n+35)}}}
		check(t, c, "large-backlog")
	}
}

// TestLongLogs: logs that grow past 10 000 entries (thorough: 100 000) - where offsets, segment
// names and anything else printed in decimal gain a digit - with the consumer killed at offsets
// before, at and after the boundary while part of the backlog is still ahead of it, then
// restarted: every appended message is handed over, nothing is skipped.
func TestLongLogs(t *testing.T) {
	type sc struct{ n, k int }
	scs := []sc{{10020, 9990}, {10020, 2600}, {10600, 8400}, {10020, 9999}, {10300, 10000}, {12700, 10001}}
	if ev.Tier() == "thorough" {
		scs = append(scs, sc{100020, 99990}, sc{100500, 20500}, sc{101000, 100000}, sc{20020, 19990}, sc{10020, 5000}, sc{11000, 7499})
	}
	for i, x := range scs {
		x := x
		t.Run(fmt.Sprint(i), func(t *testing.T) {
			t.Parallel()
			check(t, Case{Rounds: []Round{{Append: x.n, Crash: fmt.Sprintf("exit:%d", x.k)}, {Append: 0, Crash: "none"}, {Append: 7, Crash: fmt.Sprintf("enter:%d", x.n+3)}, {Append: 2, Crash: "none"}}}, "long-log")
		})
	}
}
