package c07

import (
	"encoding/json"
	"fmt"
	"strings"
	"testing"

	"pgregory.net/rapid"
	"verifharness/internal/ev"
	"verifharness/internal/sim"
)

// E2E: retained publishes, clears, plain publishes and (re-)subscriptions through 1–2
// running nodes; every client's PUBLISH multiset (topic, payload, retain flag) must equal
// the model's after every step.
type E2E struct {
	Nodes   int        `json:"nodes"`
	Clients int        `json:"clients"`
	Steps   []sim.Step `json:"steps"`
}

type failure struct {
	msg          string
	inconclusive bool
}

func runE2E(c E2E) (f *failure, nt bool) {
	w, err := sim.NewWorld(c.Nodes, c.Clients)
	if err != nil {
		return &failure{err.Error(), true}, false
	}
	defer w.Close()
	cleared := false
	retained := map[string]bool{}
	for i, st := range c.Steps {
		if st.Op == "pub" && st.Retain {
			if st.Payload == "" {
				cleared = cleared || retained[st.Topic]
				delete(retained, st.Topic)
			} else {
				retained[st.Topic] = true
			}
		}
		if st.Op == "sub" && cleared {
			nt = true
		}
		for a := range retained {
			for b := range retained {
				if a != b && strings.HasPrefix(b, a+"/") && st.Op == "sub" {
					nt = true
				}
			}
		}
		problem, inconclusive := w.Apply(st)
		if inconclusive {
			return &failure{problem, true}, nt
		}
		if problem != "" {
			return &failure{fmt.Sprintf("step %d (%s c%d): %s", i, st.Op, st.C, problem), false}, nt
		}
		if m := w.CheckDeliveries(); m != "" {
			return &failure{fmt.Sprintf("after step %d (%s c%d %v%s): %s", i, st.Op, st.C, st.Filters, st.Topic, m), false}, nt
		}
	}
	return nil, nt
}

func checkE2E(t ev.TB, c E2E, labels ...string) {
	ev.WriteCurrent("retained-e2e", c)
	f, nt := runE2E(c)
	if f != nil && !f.inconclusive {
		again := 0
		for i := 0; i < 2 && again == 0; i++ {
			if f2, _ := runE2E(c); f2 != nil && !f2.inconclusive {
				again++
			}
		}
		if again == 0 {
			ev.Count("unconfirmed_failures", 1)
			f = nil
		}
	}
	ev.Case(nt, c, append(labels, "e2e", fmt.Sprintf("nodes:%d", c.Nodes))...)
	if f != nil && f.inconclusive {
		ev.Inconclusive(t, f.msg)
		return
	}
	if f != nil {
		ev.Fail(t, "retained-e2e", c, "%s", f.msg)
	}
}

func init() {
	kinds["retained-e2e"] = func(t ev.TB, raw json.RawMessage) {
		var c E2E
		ev.Decode(t, raw, &c)
		checkE2E(t, c, "replay")
	}
}

var e2eTopics = []string{"a", "a/b", "a/b/c", "a/c", "b", "a/"}
var e2eFilters = []string{"#", "a/#", "a/+", "+", "a", "a/b", "+/b", "a/+/c", "b/#", "a//#"}

func TestE2E(t *testing.T) {
	rapid.Check(t, func(t *rapid.T) {
		c := E2E{Nodes: rapid.IntRange(1, 2).Draw(t, "nodes"), Clients: rapid.IntRange(2, 4).Draw(t, "clients")}
		connected := map[int]bool{}
		payload := 0
		n := rapid.IntRange(4, 22).Draw(t, "steps")
		for i := 0; i < n; i++ {
			ci := rapid.IntRange(0, c.Clients-1).Draw(t, "client")
			if !connected[ci] {
				connected[ci] = true
				c.Steps = append(c.Steps, sim.Step{Op: "connect", C: ci, Node: rapid.IntRange(0, c.Nodes-1).Draw(t, "node"), ClientID: fmt.Sprintf("c%d", ci), KeepAlive: 6000})
				continue
			}
			switch x := rapid.IntRange(0, 12).Draw(t, "op"); {
			case x == 12:
				// an operator clears a retained message through a node's DeleteRetainedMessage RPC
				c.Steps = append(c.Steps, sim.Step{Op: "rpcclear", Node: rapid.IntRange(0, c.Nodes-1).Draw(t, "rpcnode"), Topic: rapid.SampledFrom(e2eTopics).Draw(t, "topic")})
			case x < 5:
				payload++
				st := sim.Step{Op: "pub", C: ci, Topic: rapid.SampledFrom(e2eTopics).Draw(t, "topic"), Payload: fmt.Sprintf("r%d", payload), Retain: true, PQoS: byte(rapid.IntRange(0, 2).Draw(t, "pqos"))}
				if rapid.IntRange(0, 3).Draw(t, "clear") == 0 {
					st.Payload = ""
				}
				st.Dup = rapid.IntRange(0, 3).Draw(t, "dup") == 0
				c.Steps = append(c.Steps, st)
			case x < 6:
				payload++
				c.Steps = append(c.Steps, sim.Step{Op: "pub", C: ci, Topic: rapid.SampledFrom(e2eTopics).Draw(t, "topic"), Payload: fmt.Sprintf("p%d", payload), PQoS: byte(rapid.IntRange(0, 1).Draw(t, "pqos"))})
			case x < 11:
				// one SUBSCRIBE packet with 1-3 filters (each filter replays its own matches)
				st := sim.Step{Op: "sub", C: ci}
				nf := rapid.SampledFrom([]int{1, 1, 2, 3}).Draw(t, "nfilters")
				seen := map[string]bool{}
				for j := 0; j < nf; j++ {
					f := rapid.SampledFrom(e2eFilters).Draw(t, "filter")
					if !seen[f] {
						seen[f] = true
						st.Filters = append(st.Filters, f)
						st.QoS = append(st.QoS, rapid.IntRange(0, 2).Draw(t, "qos"))
					}
				}
				c.Steps = append(c.Steps, st)
			default:
				c.Steps = append(c.Steps, sim.Step{Op: "unsub", C: ci, Filters: []string{rapid.SampledFrom(e2eFilters).Draw(t, "filter")}})
			}
		}
		checkE2E(t, c)
	})
}

// TestManyRetained: one filter matching many retained topics (a fleet of devices each with a
// retained status): N retained publishes on r/<i>/s (some cleared again), then clients
// subscribe with r/#, r/+/s, # at QoS 0/1 — every matching retained message must arrive
// exactly once, flagged, whatever N is (N straddles the usual queue and batch sizes).
func TestManyRetained(t *testing.T) {
	rapid.Check(t, func(t *rapid.T) {
		n := rapid.SampledFrom([]int{8, 24, 25, 26, 27, 40, 64, 65, 130, 300}).Draw(t, "n")
		c := E2E{Nodes: rapid.IntRange(1, 2).Draw(t, "nodes"), Clients: 4}
		c.Steps = append(c.Steps, sim.Step{Op: "connect", C: 0, ClientID: "c0", KeepAlive: 6000})
		for i := 0; i < n; i++ {
			c.Steps = append(c.Steps, sim.Step{Op: "pub", C: 0, Topic: fmt.Sprintf("r/%d/s", i), Payload: fmt.Sprintf("state-%d", i), Retain: true, PQoS: byte(i % 2)})
		}
		cleared := rapid.IntRange(0, 3).Draw(t, "cleared")
		for i := 0; i < cleared; i++ {
			c.Steps = append(c.Steps, sim.Step{Op: "pub", C: 0, Topic: fmt.Sprintf("r/%d/s", rapid.IntRange(0, n-1).Draw(t, "clearedTopic")), Payload: "", Retain: true})
		}
		for ci := 1; ci <= 3; ci++ {
			c.Steps = append(c.Steps, sim.Step{Op: "connect", C: ci, Node: rapid.IntRange(0, c.Nodes-1).Draw(t, "node"), ClientID: fmt.Sprintf("c%d", ci), KeepAlive: 6000})
			st := sim.Step{Op: "sub", C: ci, Filters: []string{rapid.SampledFrom([]string{"r/#", "r/+/s", "#", "r/1/#", "+/+/s"}).Draw(t, "filter")}, QoS: []int{rapid.IntRange(0, 1).Draw(t, "qos")}}
			if rapid.IntRange(0, 3).Draw(t, "second") == 0 {
				st.Filters = append(st.Filters, "r/2/s")
				st.QoS = append(st.QoS, 0)
			}
			c.Steps = append(c.Steps, st)
		}
		checkE2E(t, c, "many-retained", fmt.Sprintf("n:%d", n))
	})
}
