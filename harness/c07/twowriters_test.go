package c07

import (
	"encoding/json"
	"fmt"
	"sort"
	"strings"
	"testing"

	"github.com/vx-labs/mqtt-protocol/packet"
	"pgregory.net/rapid"
	"verifharness/internal/dst"
	"verifharness/internal/ev"
)

// Two (three) nodes write the same few topics with the same few payloads; a node's broadcasts
// reach the others only at "flush" points (late gossip). The clocks are one strictly
// increasing virtual clock, so "the most recent retained publish" is well defined: at every
// point where all broadcasts have been delivered, every node must replay, per topic, the
// payload of the latest Set — or nothing if the latest operation was a clear — however often
// the same payload was published before and wherever the operations happened.
type WOp struct {
	Node    int    `json:"node"`
	Op      string `json:"op"` // set | del
	Topic   string `json:"topic"`
	Payload string `json:"payload,omitempty"`
	QoS     int32  `json:"qos,omitempty"`
	Flush   bool   `json:"flush,omitempty"` // after this operation every pending broadcast is delivered everywhere
}

type WCase struct {
	Nodes int   `json:"nodes"`
	Ops   []WOp `json:"ops"`
}

func runW(c WCase) (msg string, nt bool) {
	defer func() {
		if r := recover(); r != nil {
			msg = fmt.Sprintf("panic: %v", r)
		}
	}()
	defer dst.InstallClock()()
	var nodes []*dst.Node
	for i := 0; i < c.Nodes; i++ {
		nodes = append(nodes, dst.NewNode(uint64(i+1)))
	}
	pending := make([][][]byte, c.Nodes) // broadcasts of node i not yet delivered to the others
	model := map[string]string{}
	lastWriter := map[string]int{}
	clock := int64(1000)
	ops := append([]WOp{}, c.Ops...)
	if len(ops) > 0 {
		ops[len(ops)-1].Flush = true
	}
	held := false
	for i, op := range ops {
		clock += 10
		dst.SetNow(clock)
		n := nodes[op.Node%c.Nodes]
		switch op.Op {
		case "set":
			if model[op.Topic] == op.Payload && lastWriter[op.Topic] == op.Node%c.Nodes && held {
				nt = true // the same payload again on the same node while other nodes' writes are in flight
			}
			if err := n.State.Topics().Set(&packet.Publish{Header: &packet.Header{Retain: true, Qos: op.QoS}, Topic: []byte("mp/" + op.Topic), Payload: []byte(op.Payload)}); err != nil {
				return fmt.Sprintf("step %d: Set: %v", i, err), nt
			}
			model[op.Topic] = op.Payload
		case "del":
			if err := n.State.Topics().Delete([]byte("mp/" + op.Topic)); err != nil {
				return fmt.Sprintf("step %d: Delete: %v", i, err), nt
			}
			delete(model, op.Topic)
		}
		lastWriter[op.Topic] = op.Node % c.Nodes
		pending[op.Node%c.Nodes] = append(pending[op.Node%c.Nodes], n.Drain()...)
		if !op.Flush {
			held = true
			continue
		}
		held = false
		for from, msgs := range pending {
			for _, m := range msgs {
				for to, x := range nodes {
					if to != from {
						x.Deliver(m)
					}
				}
			}
			pending[from] = nil
		}
		// deliveries may queue nothing new (merges do not re-broadcast); drain defensively
		for _, x := range nodes {
			x.Drain()
		}
		var want []string
		for tp, pl := range model {
			want = append(want, tp+"="+pl)
		}
		sort.Strings(want)
		for ni, x := range nodes {
			got, err := get(x, "#")
			if err != nil {
				return fmt.Sprintf("step %d: node %d: Get(#): %v", i, ni+1, err), nt
			}
			if strings.Join(got, "\x00") != strings.Join(want, "\x00") {
				return fmt.Sprintf("after step %d (all broadcasts delivered): node %d replays %q, the most recent retained publishes are %q", i, ni+1, got, want), nt
			}
		}
	}
	return "", nt
}

func checkW(t ev.TB, c WCase, labels ...string) {
	msg, nt := runW(c)
	ev.Case(nt, c, append(labels, "two-writers")...)
	if msg != "" {
		ev.Fail(t, "retained-writers", c, "%s", msg)
	}
}

func init() {
	kinds["retained-writers"] = func(t ev.TB, raw json.RawMessage) {
		var c WCase
		ev.Decode(t, raw, &c)
		checkW(t, c, "replay")
	}
}

func TestTwoWriters(t *testing.T) {
	rapid.Check(t, func(t *rapid.T) {
		c := WCase{Nodes: rapid.IntRange(2, 3).Draw(t, "nodes")}
		n := rapid.IntRange(2, 12).Draw(t, "n")
		for i := 0; i < n; i++ {
			op := WOp{Node: rapid.IntRange(0, c.Nodes-1).Draw(t, "node"), Topic: rapid.SampledFrom([]string{"a", "a/b"}).Draw(t, "topic"), Flush: rapid.IntRange(0, 3).Draw(t, "flush") == 0}
			if rapid.IntRange(0, 3).Draw(t, "del") == 0 {
				op.Op = "del"
			} else {
				op.Op, op.Payload, op.QoS = "set", rapid.SampledFrom([]string{"p1", "p1", "p2"}).Draw(t, "payload"), int32(rapid.IntRange(0, 1).Draw(t, "qos"))
			}
			c.Ops = append(c.Ops, op)
		}
		checkW(t, c)
	})
}

// TestTwoWritersEnum: every history of up to L operations over {set p1, set p2, clear} x
// {node 1, node 2} on one topic, all broadcasts held until the end.
func TestTwoWritersEnum(t *testing.T) {
	L := ev.Scale(4, 6)
	type sym struct {
		node int
		op   string
		pl   string
	}
	var al []sym
	for node := 0; node < 2; node++ {
		al = append(al, sym{node, "set", "p1"}, sym{node, "set", "p2"}, sym{node, "del", ""})
	}
	si, sn := ev.Shard()
	idx := 0
	for l := 2; l <= L; l++ {
		var rec func(prefix []WOp)
		rec = func(prefix []WOp) {
			if len(prefix) == l {
				idx++
				if idx%sn != si {
					return
				}
				checkW(t, WCase{Nodes: 2, Ops: append([]WOp{}, prefix...)}, "enum")
				return
			}
			for _, s := range al {
				rec(append(prefix, WOp{Node: s.node, Op: s.op, Topic: "a", Payload: s.pl}))
			}
		}
		rec(nil)
	}
	ev.Exhaustive(fmt.Sprintf("retained writes from two nodes (shard %d/%d): all histories of length 2..%d over {set p1, set p2, clear} x {node 1, node 2} on one topic, every broadcast delivered only at the end", si, sn, L))
}
