// C07 — retained: the last non-empty publish per topic is replayed to new subscribers.
//
// This file: TopicsState (L2) — histories of Set/Delete with every small filter queried after
// every step, on the writing node and on a replica fed by its broadcasts.
// e2e_test.go checks the replay on SUBSCRIBE through a running broker.
package c07

import (
	"encoding/json"
	"fmt"
	"sort"
	"strings"
	"testing"

	"github.com/vx-labs/mqtt-protocol/packet"
	"pgregory.net/rapid"
	"verifharness/internal/dst"
	"verifharness/internal/ev"
	"verifharness/internal/ref"
)

func TestMain(m *testing.M) { ev.Main(m, "C07") }

var kinds = ev.Kinds{}

func TestReplayFile(t *testing.T) { ev.ReplayFile(t, kinds) }
func TestRegress(t *testing.T)    { ev.Regress(t, kinds, "testdata/regress") }

type Op struct {
	Op      string `json:"op"` // set | del
	Topic   string `json:"topic"`
	Payload string `json:"payload,omitempty"`
}

type Case struct {
	Ops []Op `json:"ops"`
	// Redeliver[i] (if present and >= 0): after step i the replica "C" is handed broadcast
	// number Redeliver[i] (mod the number queued so far) once more - a gossip retransmission
	// of an older update. Replica "B" gets every broadcast exactly once, in order.
	Redeliver []int `json:"redeliver,omitempty"`
}

var topicPool = []string{"a", "a/b", "a/b/c", "a/c", "b", "a/", "a//b", "/a", "c/a/b", "b/c"}

var smallFilters = func() []string {
	var out []string
	al := []string{"a", "b", "c", "", "+"}
	var rec func(cur []string)
	rec = func(cur []string) {
		if len(cur) > 0 {
			if s := strings.Join(cur, "/"); s != "" {
				out = append(out, s)
			}
		}
		if len(cur) < 3 {
			out = append(out, strings.Join(append(append([]string{}, cur...), "#"), "/"))
		}
		if len(cur) == 3 {
			return
		}
		for _, a := range al {
			rec(append(cur, a))
		}
	}
	rec(nil)
	return out
}()

func get(n *dst.Node, filter string) ([]string, error) {
	msgs, err := n.State.Topics().Get([]byte("mp/" + filter))
	if err != nil {
		return nil, err
	}
	var out []string
	for _, m := range msgs {
		out = append(out, fmt.Sprintf("%s=%s", strings.TrimPrefix(string(m.Publish.Topic), "mp/"), m.Publish.Payload))
	}
	sort.Strings(out)
	return out, nil
}

func run(c Case) (msg string, nt bool) {
	defer func() {
		if r := recover(); r != nil {
			msg = fmt.Sprintf("panic: %v", r)
		}
	}()
	defer dst.InstallClock()()
	a, b, cRep := dst.NewNode(1), dst.NewNode(2), dst.NewNode(3)
	var all [][]byte
	model := map[string]string{}
	clock := int64(1000)
	for i, op := range c.Ops {
		clock++
		dst.SetNow(clock)
		switch op.Op {
		case "set":
			err := a.State.Topics().Set(&packet.Publish{Header: &packet.Header{Retain: true}, Topic: []byte("mp/" + op.Topic), Payload: []byte(op.Payload)})
			if err != nil {
				return fmt.Sprintf("step %d: Set: %v", i, err), nt
			}
			model[op.Topic] = op.Payload
		case "del":
			if _, ok := model[op.Topic]; ok {
				nt = true
			}
			if err := a.State.Topics().Delete([]byte("mp/" + op.Topic)); err != nil {
				return fmt.Sprintf("step %d: Delete: %v", i, err), nt
			}
			delete(model, op.Topic)
		}
		for t1 := range model {
			for t2 := range model {
				if t1 != t2 && strings.HasPrefix(t2, t1+"/") {
					nt = true
				}
			}
		}
		for _, m := range a.Drain() {
			b.Deliver(m)
			cRep.Deliver(m)
			all = append(all, m)
		}
		if i < len(c.Redeliver) && c.Redeliver[i] >= 0 && len(all) > 0 {
			cRep.Deliver(all[c.Redeliver[i]%len(all)])
		}
		for _, f := range smallFilters {
			var want []string
			for tp, pl := range model {
				if ref.MatchS(f, tp) {
					want = append(want, tp+"="+pl)
				}
			}
			sort.Strings(want)
			for _, n := range []struct {
				name string
				node *dst.Node
			}{{"writer", a}, {"replica", b}, {"replica with re-delivered older broadcasts", cRep}} {
				got, err := get(n.node, f)
				if err != nil {
					return fmt.Sprintf("step %d: %s: Get(%q): %v", i, n.name, f, err), nt
				}
				if strings.Join(got, "\x00") != strings.Join(want, "\x00") {
					return fmt.Sprintf("after step %d (%s %s): %s: Get(%q) = %q, model says %q", i, op.Op, op.Topic, n.name, f, got, want), nt
				}
			}
		}
	}
	return "", nt
}

func check(t ev.TB, c Case, labels ...string) {
	msg, nt := run(c)
	ev.Case(nt, c, labels...)
	ev.Count("filter_queries", int64(3*len(smallFilters)*len(c.Ops)))
	if msg != "" {
		ev.Fail(t, "retained-state", c, "%s", msg)
	}
}

func init() {
	kinds["retained-state"] = func(t ev.TB, raw json.RawMessage) {
		var c Case
		ev.Decode(t, raw, &c)
		check(t, c, "replay")
	}
}

func TestState(t *testing.T) {
	rapid.Check(t, func(t *rapid.T) {
		n := rapid.IntRange(1, 14).Draw(t, "n")
		c := Case{}
		for i := 0; i < n; i++ {
			tp := rapid.SampledFrom(topicPool).Draw(t, "topic")
			if rapid.IntRange(0, 2).Draw(t, "del") == 0 {
				c.Ops = append(c.Ops, Op{Op: "del", Topic: tp})
			} else {
				c.Ops = append(c.Ops, Op{Op: "set", Topic: tp, Payload: rapid.SampledFrom([]string{"p1", "p2", "p3"}).Draw(t, "payload")})
			}
			c.Redeliver = append(c.Redeliver, rapid.IntRange(-1, 20).Draw(t, "redeliver"))
		}
		check(t, c)
	})
}

// TestStateEnum: all histories of up to L steps over {set p1, set p2, del} × {a, a/b, a/b/c, b}.
func TestStateEnum(t *testing.T) {
	L := ev.Scale(3, 4)
	var al []Op
	for _, tp := range []string{"a", "a/b", "a/b/c", "b"} {
		al = append(al, Op{"set", tp, "p1"}, Op{"set", tp, "p2"}, Op{"del", tp, ""})
	}
	si, sn := ev.Shard()
	idx := 0
	for l := 1; l <= L; l++ {
		var rec func(prefix []Op)
		rec = func(prefix []Op) {
			if len(prefix) == l {
				idx++
				if idx%sn != si {
					return
				}
				// the replica with re-deliveries gets the first broadcast again after every step
				rd := make([]int, len(prefix))
				check(t, Case{Ops: append([]Op{}, prefix...), Redeliver: rd}, "enum")
				return
			}
			for _, o := range al {
				rec(append(prefix, o))
			}
		}
		rec(nil)
	}
	ev.Exhaustive(fmt.Sprintf("TopicsState (shard %d/%d): all histories of length 1..%d over {set p1, set p2, clear} x {a, a/b, a/b/c, b}; all %d filters of up to 3 levels queried after every step on writer and replica", si, sn, L, len(smallFilters)))
}
