package c07

import (
	"encoding/json"
	"fmt"
	"testing"

	"github.com/golang/protobuf/proto"
	"github.com/vx-labs/mqtt-protocol/packet"
	"github.com/vx-labs/wasp/v4/wasp/api"
	"verifharness/internal/ev"
	"verifharness/internal/sim"
)

// RaceCase: a SUBSCRIBE and a retained publish on a matching topic are in flight at the same
// moment on one node (two connections, two goroutines in the broker). Whatever the
// interleaving, the new subscriber ends up with the new payload: as the retained replay (the
// publish was stored first) or as a live copy (the subscription was registered first) — it
// must not fall between the two. The node holds Bulk unrelated retained topics and the
// SUBSCRIBE carries several filters that have to be evaluated against all of them, as on a
// loaded broker.
type RaceCase struct {
	Bulk   int `json:"bulk"`
	Rounds int `json:"rounds"`
}

func runRace(c RaceCase) *failure {
	cl, err := sim.NewCluster()
	if err != nil {
		return &failure{err.Error(), true}
	}
	defer cl.Close()
	n, err := cl.AddNode(sim.NodeOpts{})
	if err != nil {
		return &failure{err.Error(), true}
	}
	if c.Bulk > 0 {
		evt := &api.StateBroadcastEvent{}
		for i := 0; i < c.Bulk; i++ {
			evt.RetainedMessages = append(evt.RetainedMessages, &api.RetainedMessage{LastAdded: 1,
				Publish: &packet.Publish{Header: &packet.Header{Retain: true}, Topic: []byte(fmt.Sprintf("_default/bulk/%d/a/b", i)), Payload: []byte("x")}})
		}
		buf, err := proto.Marshal(evt)
		if err != nil {
			return &failure{err.Error(), true}
		}
		n.State.Distributor().NotifyMsg(buf)
	}
	pub := cl.NewClient("pub")
	pub.AttachTo(n)
	pub.Send(sim.EncConnect(sim.ConnectOpts{ClientID: "pub", KeepAlive: 6000}))
	pub.Send(sim.EncPublish("race/t", []byte("v0"), 1, true, false, 1))
	if err := cl.Settle(); err != nil {
		return &failure{err.Error(), true}
	}
	filters := []string{"bulk/+/+/zz", "bulk/+/zz/+", "race/#", "bulk/zz/#", "bulk/+/+/yy"}
	qos := []byte{0, 0, 0, 0, 0}
	for r := 1; r <= c.Rounds; r++ {
		s := cl.NewClient(fmt.Sprintf("sub%d", r))
		s.AttachTo(n)
		s.Send(sim.EncConnect(sim.ConnectOpts{ClientID: s.Name, KeepAlive: 6000}))
		if err := cl.Settle(); err != nil {
			return &failure{err.Error(), true}
		}
		payload := fmt.Sprintf("v%d", r)
		sub := sim.EncSubscribe(1, filters, qos)
		p := sim.EncPublish("race/t", []byte(payload), 1, true, false, uint16(r+1))
		if r%2 == 0 {
			s.Send(sub)
			pub.Send(p)
		} else {
			pub.Send(p)
			s.Send(sub)
		}
		if err := cl.Settle(); err != nil {
			return &failure{err.Error(), true}
		}
		if !s.Has(sim.SUBACK, 1) || !pub.Has(sim.PUBACK, uint16(r+1)) {
			return &failure{fmt.Sprintf("round %d: SUBACK received: %v, PUBACK received: %v", r, s.Has(sim.SUBACK, 1), pub.Has(sim.PUBACK, uint16(r+1))), false}
		}
		var got []string
		latest := false
		for _, x := range s.Publishes() {
			if x.Topic == "race/t" {
				got = append(got, fmt.Sprintf("%s(retained=%v)", x.Payload, x.Retain))
				if x.Payload == payload {
					latest = true
				}
			}
		}
		if !latest {
			return &failure{fmt.Sprintf("round %d: a SUBSCRIBE matching race/t raced the retained publish %q; both were acknowledged, and the new subscriber received %v on race/t: the new payload reached it neither as the retained replay nor as a live copy", r, payload, got), false}
		}
		s.Send(sim.EncDisconnect())
	}
	return nil
}

func checkRace(t ev.TB, c RaceCase) {
	ev.WriteCurrent("retained-race", c)
	f := runRace(c)
	if f != nil && !f.inconclusive {
		// schedule dependent: many rounds per run; confirm by re-execution
		again := 0
		for i := 0; i < 3 && again == 0; i++ {
			if f2 := runRace(c); f2 != nil && !f2.inconclusive {
				again++
			}
		}
		if again == 0 {
			ev.Count("unconfirmed_failures", 1)
			f = nil
		}
	}
	ev.Case(true, c, "subscribe-vs-retained-publish")
	ev.Count("race_rounds", int64(c.Rounds))
	if f != nil && f.inconclusive {
		ev.Inconclusive(t, f.msg)
		return
	}
	if f != nil {
		ev.Fail(t, "retained-race", c, "%s", f.msg)
	}
}

func init() {
	kinds["retained-race"] = func(t ev.TB, raw json.RawMessage) {
		var c RaceCase
		ev.Decode(t, raw, &c)
		checkRace(t, c)
	}
}

func TestSubscribeRacesRetainedPublish(t *testing.T) {
	si, sn := ev.Shard()
	reps := ev.Scale(1, 6)
	i := 0
	for rep := 0; rep < reps; rep++ {
		for _, c := range []RaceCase{{3000, 120}, {0, 300}, {10000, 60}, {3000, 120}} {
			i++
			if i%sn != si {
				continue
			}
			checkRace(t, c)
		}
	}
}
