package c07

// Lifetime: what a node retains must not depend on how many topics it has seen in its life.
//
// A writer node sets K topics one after the other and clears most of them again (so few are
// retained at any time, but the node has held K names, live or cleared); a mirror receives its
// broadcasts. At checkpoints - dense around powers of two and of ten, sparse elsewhere - a
// retained publish on a name nobody has used before must be replayed, on both nodes, to a
// subscriber of the exact name, of a `+` filter and of a `#` filter, and cleared again it must
// not. At the end `#` lists exactly the model (K = 70 000 quick / 300 000 thorough).

import (
	"encoding/json"
	"fmt"
	"sort"
	"testing"

	"github.com/vx-labs/mqtt-protocol/packet"
	"verifharness/internal/dst"
	"verifharness/internal/ev"
)

type LifetimeCase struct {
	K int `json:"k"` // names used before the last checkpoint
}

func lifetimeCheckpoint(i int) bool {
	for _, b := range []int{1000, 4096, 8192, 10000, 16384, 32768, 50000, 65536, 100000, 131072, 200000, 262144} {
		if i >= b-1 && i <= b+1 {
			return true
		}
	}
	return i%5000 == 2500
}

func lifetimeRun(upTo int, onCheckpoint func(int)) string {
	restore := dst.InstallClock()
	defer restore()
	base := int64(1_700_000_000_000_000_000)
	w, r := dst.NewNode(1), dst.NewNode(2)
	sync := func() {
		for _, m := range w.Drain() {
			r.Deliver(m)
		}
	}
	model := map[string]string{}
	set := func(topic, payload string) error {
		return w.State.Topics().Set(&packet.Publish{Header: &packet.Header{Retain: true}, Topic: []byte("mp/" + topic), Payload: []byte(payload)})
	}
	for i := 1; i <= upTo; i++ {
		dst.SetNow(base + int64(i)*1000)
		name := fmt.Sprintf("l/%d", i)
		if err := set(name, "v"); err != nil {
			return fmt.Sprintf("retained publish on the %dth name refused: %v", i, err)
		}
		model[name] = "v"
		if i%50 != 0 {
			dst.SetNow(base + int64(i)*1000 + 300)
			w.State.Topics().Delete([]byte("mp/" + name))
			delete(model, name)
		}
		if !lifetimeCheckpoint(i) && i != upTo {
			if i%256 == 0 {
				sync()
			}
			continue
		}
		if onCheckpoint != nil {
			onCheckpoint(i)
		}
		dst.SetNow(base + int64(i)*1000 + 600)
		probe := fmt.Sprintf("probe/%d/x", i)
		perr := set(probe, "fresh")
		sync()
		for _, n := range []struct {
			name string
			n    *dst.Node
		}{{"writer", w}, {"mirror", r}} {
			for _, f := range []string{probe, fmt.Sprintf("probe/%d/+", i), fmt.Sprintf("probe/%d/#", i), fmt.Sprintf("+/%d/x", i)} {
				got, err := get(n.n, f)
				if err != nil || len(got) != 1 || got[0] != probe+"=fresh" {
					return fmt.Sprintf("after %d names (of which %d retained): a retained publish on the new topic %q (Set returned %v) is replayed on the %s for filter %q as %q (%v), want [%s=fresh]", i, len(model), probe, perr, n.name, f, got, err, probe)
				}
			}
		}
		dst.SetNow(base + int64(i)*1000 + 800)
		w.State.Topics().Delete([]byte("mp/" + probe))
		sync()
		for _, n := range []*dst.Node{w, r} {
			if got, _ := get(n, fmt.Sprintf("probe/%d/#", i)); len(got) != 0 {
				return fmt.Sprintf("after %d names: the cleared topic %q is still replayed: %q", i, probe, got)
			}
		}
	}
	sync()
	var want []string
	for k, v := range model {
		want = append(want, k+"="+v)
	}
	sort.Strings(want)
	for _, n := range []struct {
		name string
		n    *dst.Node
	}{{"writer", w}, {"mirror", r}} {
		got, err := get(n.n, "#")
		if err != nil || fmt.Sprint(got) != fmt.Sprint(want) {
			return fmt.Sprintf("after %d names the %s lists %d retained messages for '#' (%v), the model %d", upTo, n.name, len(got), err, len(want))
		}
	}
	return ""
}

func init() {
	kinds["lifetime"] = func(t ev.TB, raw json.RawMessage) {
		var c LifetimeCase
		ev.Decode(t, raw, &c)
		if msg := lifetimeRun(c.K, nil); msg != "" {
			ev.Fail(t, "lifetime", c, "%s", msg)
		}
	}
}

func TestLifetime(t *testing.T) {
	k := ev.Scale(70_000, 300_000)
	last := 0
	msg := lifetimeRun(k, func(i int) {
		last = i
		ev.CaseKey(true, fmt.Sprint("lifetime", i), func() interface{} { return LifetimeCase{i} }, "lifetime")
	})
	if msg != "" {
		ev.Fail(t, "lifetime", LifetimeCase{last}, "%s", msg)
	}
}
