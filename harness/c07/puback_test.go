package c07

// The moment a publisher holds the acknowledgement of a retained publish, the message is the
// retained message of its topic: a client that subscribes at that very moment gets it (as the
// retained copy or as the live one), and after an acknowledged clear it gets nothing older. The
// fake connection hands every chunk written to the publisher to a hook before the broker's write
// returns; the hook makes another, already connected client SUBSCRIBE and waits for its SUBACK.

import (
	"encoding/json"
	"fmt"
	"testing"
	"time"

	"pgregory.net/rapid"
	"verifharness/internal/ev"
	"verifharness/internal/sim"
)

type PubAckCase struct {
	QoS     int      `json:"qos"`
	Before  int      `json:"before"` // earlier retained values on the topic (0 = none)
	Clear   bool     `json:"clear"`  // the judged publish clears the topic
	Filters []string `json:"filters"`
	Others  int      `json:"others"` // retained messages on sibling topics
}

func runPubAck(c PubAckCase) *failure {
	cl, err := sim.NewCluster()
	if err != nil {
		return &failure{err.Error(), true}
	}
	defer cl.Close()
	n, err := cl.AddNode(sim.NodeOpts{})
	if err != nil {
		return &failure{err.Error(), true}
	}
	mk := func(name string) *sim.Client {
		k := cl.NewClient(name)
		k.AttachTo(n)
		k.Send(sim.EncConnect(sim.ConnectOpts{ClientID: name, KeepAlive: 6000}))
		return k
	}
	pub, sub := mk("pub"), mk("sub")
	for i := 0; i < c.Others; i++ {
		pub.Send(sim.EncPublish(fmt.Sprintf("r/o%d", i), []byte("other"), 0, true, false, 0))
	}
	for i := 0; i < c.Before; i++ {
		pub.Send(sim.EncPublish("r/t", []byte(fmt.Sprintf("old-%d", i)), 1, true, false, uint16(100+i)))
	}
	if err := cl.Settle(); err != nil {
		return &failure{err.Error(), true}
	}
	ackType := byte(sim.PUBACK)
	if c.QoS == 2 {
		ackType = sim.PUBCOMP
	}
	qos := make([]byte, len(c.Filters))
	done := make(chan bool, 1)
	pub.Conn.WhenWritten([]byte{ackType << 4, 0x02, 0x00, 0x07}, func() {
		sub.Send(sim.EncSubscribe(3, c.Filters, qos))
		ok := false
		for until := time.Now().Add(10 * time.Second); time.Now().Before(until); time.Sleep(200 * time.Microsecond) {
			sub.Pump()
			if sub.Has(sim.SUBACK, 3) {
				ok = true
				break
			}
		}
		done <- ok
	})
	payload := "new"
	if c.Clear {
		payload = ""
	}
	pub.Send(sim.EncPublish("r/t", []byte(payload), byte(c.QoS), true, false, 7))
	// the publisher's own QoS 2 handshake needs its PUBREL: Settle pumps it
	deadline := time.After(40 * time.Second)
	for settled := false; !settled; {
		select {
		case ok := <-done:
			if !ok {
				return &failure{"the SUBSCRIBE sent when the acknowledgement arrived got no SUBACK within 10 s", true}
			}
			settled = true
		case <-deadline:
			return &failure{"no acknowledgement of the retained publish seen within 40 s", true}
		default:
			if c.QoS == 2 {
				pub.Pump() // answers PUBREC with PUBREL
			}
			time.Sleep(200 * time.Microsecond)
		}
	}
	if err := cl.Settle(); err != nil {
		return &failure{err.Error(), true}
	}
	var got []string
	for _, p := range sub.Publishes() {
		if p.Topic == "r/t" {
			got = append(got, fmt.Sprintf("%s(retained=%v)", p.Payload, p.Retain))
		}
	}
	if c.Clear {
		if len(got) != 0 {
			return &failure{fmt.Sprintf("the retained message of r/t was cleared and the clear acknowledged (%s); a client subscribing to %q at that moment was sent %v", sim.TypeName(ackType), c.Filters, got), false}
		}
		return nil
	}
	for _, p := range sub.Publishes() {
		if p.Topic == "r/t" && p.Payload == "new" {
			return nil
		}
	}
	return &failure{fmt.Sprintf("a retained publish on r/t was acknowledged (%s); a client subscribing to %q at that moment was sent %v for that topic, never the new value", sim.TypeName(ackType), c.Filters, got), false}
}

func checkPubAck(t ev.TB, c PubAckCase) {
	ev.WriteCurrent("subscribe-at-puback", c)
	f := runPubAck(c)
	if f != nil && !f.inconclusive {
		if f2 := runPubAck(c); f2 == nil || f2.inconclusive {
			ev.Count("unconfirmed_failures", 1)
			f = nil
		}
	}
	ev.Case(true, c, "subscribe-at-puback")
	if f != nil && f.inconclusive {
		ev.Inconclusive(t, f.msg)
		return
	}
	if f != nil {
		ev.Fail(t, "subscribe-at-puback", c, "%s", f.msg)
	}
}

func init() {
	kinds["subscribe-at-puback"] = func(t ev.TB, raw json.RawMessage) {
		var c PubAckCase
		ev.Decode(t, raw, &c)
		checkPubAck(t, c)
	}
}

func TestSubscribeAtPubAck(t *testing.T) {
	rapid.Check(t, func(t *rapid.T) {
		c := PubAckCase{QoS: rapid.IntRange(1, 2).Draw(t, "qos"), Before: rapid.IntRange(0, 2).Draw(t, "before"), Others: rapid.SampledFrom([]int{0, 3, 40}).Draw(t, "others")}
		c.Clear = c.Before > 0 && rapid.Bool().Draw(t, "clear")
		c.Filters = rapid.SampledFrom([][]string{{"r/t"}, {"r/+"}, {"#"}, {"r/#"}, {"x/y", "r/t"}, {"r/o0", "+/t", "zz"}}).Draw(t, "filters")
		checkPubAck(t, c)
	})
}
