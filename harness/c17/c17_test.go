// C17 — mount points isolate tenants.
package c17

import (
	"encoding/json"
	"fmt"
	"testing"

	"pgregory.net/rapid"
	"verifharness/internal/ev"
	"verifharness/internal/sim"
)

func TestMain(m *testing.M) { ev.Main(m, "C17") }

type Case struct {
	Nodes   int        `json:"nodes"`
	Clients int        `json:"clients"`
	Steps   []sim.Step `json:"steps"`
}

type failure struct {
	msg          string
	inconclusive bool
}

func run(c Case) *failure {
	w, err := sim.NewWorld(c.Nodes, c.Clients)
	if err != nil {
		return &failure{err.Error(), true}
	}
	defer w.Close()
	for i, st := range c.Steps {
		problem, inconclusive := w.Apply(st)
		if inconclusive {
			return &failure{problem, true}
		}
		if problem != "" {
			return &failure{fmt.Sprintf("step %d (%s c%d): %s", i, st.Op, st.C, problem), false}
		}
		if m := w.CheckDeliveries(); m != "" {
			return &failure{fmt.Sprintf("after step %d (%s c%d): %s", i, st.Op, st.C, m), false}
		}
		if m := w.CheckState(); m != "" {
			return &failure{fmt.Sprintf("after step %d (%s c%d): %s", i, st.Op, st.C, m), false}
		}
	}
	// every session that gave no cause still answers
	for i, s := range w.S {
		if s.Alive && !s.Displaced && !s.Node.Down {
			if p, inc := w.Apply(sim.Step{Op: "ping", C: i}); inc {
				return &failure{p, true}
			} else if p != "" {
				return &failure{"final liveness round: " + p, false}
			}
		}
	}
	return nil
}

func nontrivial(c Case) bool {
	// two tenants with overlapping filters and the same client id
	type key struct{ mp, id string }
	ids := map[string]map[string]bool{}
	subs := map[string]bool{}
	cid := map[int]key{}
	for _, st := range c.Steps {
		switch st.Op {
		case "connect":
			if ids[st.ClientID] == nil {
				ids[st.ClientID] = map[string]bool{}
			}
			ids[st.ClientID][st.MP] = true
			cid[st.C] = key{st.MP, st.ClientID}
		case "sub":
			subs[cid[st.C].mp] = true
		}
	}
	shared := false
	for _, mps := range ids {
		if len(mps) >= 2 {
			shared = true
		}
	}
	return shared && len(subs) >= 2
}

func check(t ev.TB, c Case, labels ...string) {
	ev.WriteCurrent("tenants", c)
	f := run(c)
	if f != nil && !f.inconclusive {
		again := 0
		for i := 0; i < 3 && again == 0; i++ {
			if f2 := run(c); f2 != nil && !f2.inconclusive {
				again++
			}
		}
		if again == 0 {
			ev.Count("unconfirmed_failures", 1)
			f = nil
		}
	}
	for _, st := range c.Steps {
		if st.Op == "failnode" {
			labels = append(labels, "node-failure")
		}
		if st.Op == "pub" && st.Retain {
			labels = append(labels, "retained-publish")
		}
	}
	ev.Case(nontrivial(c), c, append(labels, fmt.Sprintf("nodes:%d", c.Nodes))...)
	if f != nil && f.inconclusive {
		ev.Inconclusive(t, f.msg)
		return
	}
	if f != nil {
		ev.Fail(t, "tenants", c, "%s", f.msg)
	}
}

var kinds = ev.Kinds{"tenants": func(t ev.TB, raw json.RawMessage) {
	var c Case
	ev.Decode(t, raw, &c)
	for i := 0; i < 4; i++ {
		check(t, c, "replay")
	}
}}

func TestReplayFile(t *testing.T) { ev.ReplayFile(t, kinds) }
func TestRegress(t *testing.T)    { ev.Regress(t, kinds, "testdata/regress") }

// filters and topics include names of other tenants, '.' and '..' levels (ordinary level
// strings in MQTT), and empty levels
var filters = []string{"#", "+/#", "+/x", "a/#", "a/x", "+", "tenantA/#", "_default/#", "tenantB/a/x", "../tenantB/#", "../#", "./#", "a//x", "a/", "../tenantA/a/x"}
var topics = []string{"a/x", "a", "b/x", "tenantA/a", "tenantB/a/x", "x", "../tenantB/a/x", "a//x", "./a/x", "a/", "../tenantA/a"}
var mountNames = []string{"tenantA", "tenantB", ""}

func genCase(t *rapid.T, nodeFailure bool) Case {
	c := Case{Nodes: rapid.IntRange(1, 2).Draw(t, "nodes"), Clients: rapid.IntRange(2, 6).Draw(t, "clients")}
	if nodeFailure {
		c.Nodes = 2
	}
	nmp := rapid.IntRange(2, 3).Draw(t, "tenants")
	// mount-point names are free-form strings of the credential store: hierarchical names too
	// (no name is a level-prefix of another, otherwise the tenants' topic spaces overlap by design)
	names := rapid.SampledFrom([][]string{mountNames, mountNames, {"customers/acme", "customers/globex", ""}, {"t/1/x", "t/2", "u"}}).Draw(t, "mountNames")
	connected := map[int]bool{}
	payload := 0
	n := rapid.IntRange(6, 30).Draw(t, "steps")
	failed := false
	for i := 0; i < n; i++ {
		ci := rapid.IntRange(0, c.Clients-1).Draw(t, "client")
		if !connected[ci] {
			st := sim.Step{Op: "connect", C: ci, Node: rapid.IntRange(0, c.Nodes-1).Draw(t, "node"), MP: names[ci%nmp], ClientID: fmt.Sprintf("id%d", ci/nmp), KeepAlive: 600}
			if rapid.IntRange(0, 2).Draw(t, "will") == 0 {
				st.Will = &sim.Will{Topic: rapid.SampledFrom(topics).Draw(t, "willTopic"), Payload: fmt.Sprintf("will-%d", ci), QoS: 0, Retain: rapid.IntRange(0, 3).Draw(t, "willRetain") == 0}
			}
			connected[ci] = true
			c.Steps = append(c.Steps, st)
			continue
		}
		switch x := rapid.IntRange(0, 16).Draw(t, "op"); {
		case x == 16:
			// sessions of one tenant go away with deliveries in flight; sessions of another tenant
			// arrive right afterwards; then the acknowledgement deadlines pass
			a := rapid.IntRange(0, nmp-1).Draw(t, "dyingTenant")
			b := (a + rapid.IntRange(1, nmp-1).Draw(t, "arrivingTenant")) % nmp
			payload++
			c.Steps = append(c.Steps, sim.Step{Op: "recycle", Node: rapid.IntRange(0, c.Nodes-1).Draw(t, "node"), MP: names[a], ClientID: names[b],
				C: rapid.IntRange(1, 8).Draw(t, "dying"), IdleMs: int64(rapid.SampledFrom([]int{1, 8, 30}).Draw(t, "arriving")),
				Topic: rapid.SampledFrom(topics).Draw(t, "topic"), Payload: fmt.Sprintf("p%d", payload)})
		case x < 5:
			c.Steps = append(c.Steps, sim.Step{Op: "sub", C: ci, Filters: []string{rapid.SampledFrom(filters).Draw(t, "filter")}, QoS: []int{rapid.IntRange(0, 1).Draw(t, "qos")}})
		case x < 6:
			c.Steps = append(c.Steps, sim.Step{Op: "unsub", C: ci, Filters: []string{rapid.SampledFrom(filters).Draw(t, "filter")}})
		case x < 11:
			payload++
			st := sim.Step{Op: "pub", C: ci, Topic: rapid.SampledFrom(topics).Draw(t, "topic"), Payload: fmt.Sprintf("p%d", payload), PQoS: byte(rapid.IntRange(0, 2).Draw(t, "pqos")), Retain: rapid.IntRange(0, 2).Draw(t, "retain") == 0}
			if st.Retain && rapid.IntRange(0, 4).Draw(t, "clear") == 0 {
				st.Payload = ""
			}
			c.Steps = append(c.Steps, st)
		case x < 13:
			// QoS 2 exchanges of the clients' own publishes, held open across other steps, with
			// packet identifiers from a tiny range: the same identifier is in use by clients with
			// the same client id in different tenants at the same time
			pid := uint16(rapid.IntRange(1, 2).Draw(t, "pid"))
			switch rapid.IntRange(0, 3).Draw(t, "q2") {
			case 0:
				c.Steps = append(c.Steps, sim.Step{Op: "ping", C: ci})
			case 1:
				c.Steps = append(c.Steps, sim.Step{Op: "pub2rel", C: ci, PID: pid})
			default:
				payload++
				c.Steps = append(c.Steps, sim.Step{Op: "pub2hold", C: ci, PID: pid, Topic: rapid.SampledFrom(topics).Draw(t, "topic"), Payload: fmt.Sprintf("p%d", payload), Retain: rapid.IntRange(0, 3).Draw(t, "retain2") == 0})
			}
		case x < 14:
			switch rapid.IntRange(0, 5).Draw(t, "closeOrLinger") {
			case 0:
				// a subscriber that stops acknowledging: its open QoS 1/2 deliveries are sent again
				// at every sweep and must carry the very same topic each time
				c.Steps = append(c.Steps, sim.Step{Op: "noack", C: ci})
			case 1, 2:
				c.Steps = append(c.Steps, sim.Step{Op: "sweep"})
			default:
				c.Steps = append(c.Steps, sim.Step{Op: "close", C: ci})
			}
		case x < 15:
			c.Steps = append(c.Steps, sim.Step{Op: "disconnect", C: ci})
		default:
			if nodeFailure && !failed {
				failed = true
				c.Steps = append(c.Steps, sim.Step{Op: "failnode", Node: rapid.IntRange(0, 1).Draw(t, "failed")})
			}
		}
	}
	return c
}

func TestRandom(t *testing.T) {
	rapid.Check(t, func(t *rapid.T) { check(t, genCase(t, false)) })
}

func TestNodeFailure(t *testing.T) {
	rapid.Check(t, func(t *rapid.T) { check(t, genCase(t, true)) })
}
