package c17

import (
	"fmt"
	"hash/adler32"
	"hash/crc32"
	"hash/fnv"
	"strconv"
	"testing"

	"verifharness/internal/ev"
	"verifharness/internal/sim"
)

// TestDigestCollisionsAcrossTenants: the broker keeps all tenants in one topic space, each
// behind its mount-point prefix. For the usual 32-bit hash functions a topic of tenant
// "north" and a topic of tenant "south" whose PREFIXED names have the same digest are
// searched; each tenant has a subscriber on '#' and a publisher; the two topics are published
// alternately with no subscription change in between. Every message stays in its tenant.
func TestDigestCollisionsAcrossTenants(t *testing.T) {
	type hf struct {
		name string
		f    func([]byte) uint32
	}
	hs := []hf{
		{"fnv32a", func(b []byte) uint32 { h := fnv.New32a(); h.Write(b); return h.Sum32() }},
		{"fnv32", func(b []byte) uint32 { h := fnv.New32(); h.Write(b); return h.Sum32() }},
		{"crc32-ieee", crc32.ChecksumIEEE},
		{"adler32", adler32.Checksum},
		{"fnv64a-folded", func(b []byte) uint32 { h := fnv.New64a(); h.Write(b); v := h.Sum64(); return uint32(v) ^ uint32(v>>32) }},
	}
	n := 0
	for _, h := range hs {
		// family A (north) in a table, then walk family B (south) until a digest is met again
		seen := make(map[uint32]int32, 1<<20)
		buf := make([]byte, 0, 64)
		name := func(mp string, i int) []byte {
			buf = append(buf[:0], mp...)
			buf = append(buf, "/plant/"...)
			buf = strconv.AppendInt(buf, int64(i), 10)
			return append(buf, "/temp"...)
		}
		for i := 0; i < 1<<20; i++ {
			seen[h.f(name("north", i))] = int32(i)
		}
		a, b := -1, -1
		for j := 0; j < 3000000 && a < 0; j++ {
			if i, ok := seen[h.f(name("south", j))]; ok {
				a, b = int(i), j
			}
		}
		if a < 0 {
			continue
		}
		tn, ts := fmt.Sprintf("plant/%d/temp", a), fmt.Sprintf("plant/%d/temp", b)
		for _, northFirst := range []bool{true, false} {
			c := Case{Nodes: 1, Clients: 4, Steps: []sim.Step{
				{Op: "connect", C: 0, ClientID: "sub", KeepAlive: 600, MP: "north"},
				{Op: "connect", C: 1, ClientID: "sub", KeepAlive: 600, MP: "south"},
				{Op: "connect", C: 2, ClientID: "pub", KeepAlive: 600, MP: "north"},
				{Op: "connect", C: 3, ClientID: "pub", KeepAlive: 600, MP: "south"},
				{Op: "sub", C: 0, Filters: []string{"#"}, QoS: []int{1}},
				{Op: "sub", C: 1, Filters: []string{"#"}, QoS: []int{0}},
			}}
			pn := sim.Step{Op: "pub", C: 2, Topic: tn, Payload: "north-reading", PQoS: 1}
			ps := sim.Step{Op: "pub", C: 3, Topic: ts, Payload: "south-reading", PQoS: 1}
			if northFirst {
				c.Steps = append(c.Steps, pn, ps, pn, ps)
			} else {
				c.Steps = append(c.Steps, ps, pn, ps, pn)
			}
			check(t, c, "digest-collision", "hash:"+h.name)
			n++
		}
	}
	ev.Exhaustive(fmt.Sprintf("%d scenarios: a topic of tenant north and a topic of tenant south whose prefixed names collide under fnv32/fnv32a/crc32/adler32/folded fnv64a, published alternately between subscription changes", n))
}
