package c12

// Several connections presenting the same client identifier at the same moment.
//
// K clients (2..24) send CONNECT with one identifier to one node before any of them is answered,
// on a node that knows 0 / 2 000 / 20 000 unrelated sessions (the more records, the longer every
// look-up takes and the more the setups overlap). Whatever the schedule: every one of them is a
// new session and is established (CONNACK 0, connection open); once each has sent a PINGREQ
// exactly one is still served, and it is the one the node resolves the identifier to.

import (
	"encoding/json"
	"fmt"
	"testing"

	"github.com/golang/protobuf/proto"
	"github.com/vx-labs/wasp/v4/wasp/api"
	"pgregory.net/rapid"
	"verifharness/internal/ev"
	"verifharness/internal/sim"
)

type SimulCase struct {
	Foreign int `json:"foreign"`
	K       int `json:"k"`
	Rounds  int `json:"rounds"`
}

func runSimul(c SimulCase) *failure {
	cl, err := sim.NewCluster()
	if err != nil {
		return &failure{err.Error(), true}
	}
	defer cl.Close()
	n, err := cl.AddNode(sim.NodeOpts{})
	if err != nil {
		return &failure{err.Error(), true}
	}
	settle := func() *failure {
		if err := cl.Settle(); err != nil {
			return &failure{err.Error(), true}
		}
		return nil
	}
	if c.Foreign > 0 {
		evt := &api.StateBroadcastEvent{}
		for i := 0; i < c.Foreign; i++ {
			evt.SessionMetadatas = append(evt.SessionMetadatas, &api.SessionMetadatas{SessionID: fmt.Sprintf("foreign-s%d", i), ClientID: fmt.Sprintf("foreign-%d", i), Peer: 77, MountPoint: "_default", ConnectedAt: 1, LastAdded: 1})
		}
		buf, err := proto.Marshal(evt)
		if err != nil {
			return &failure{err.Error(), true}
		}
		n.State.Distributor().NotifyMsg(buf)
	}
	for r := 0; r < c.Rounds; r++ {
		cid := fmt.Sprintf("simul-%d", r)
		var ks []*sim.Client
		for i := 0; i < c.K; i++ {
			k := cl.NewClient(fmt.Sprintf("r%dk%d", r, i))
			k.AttachTo(n)
			ks = append(ks, k)
		}
		pkt := sim.EncConnect(sim.ConnectOpts{ClientID: cid, KeepAlive: 600})
		for _, k := range ks {
			k.Send(pkt)
		}
		if f := settle(); f != nil {
			return f
		}
		refused := 0
		for _, k := range ks {
			if !k.Accepted || k.Conn.State().BrokerClosed {
				refused++
			}
		}
		if refused > 0 {
			return &failure{fmt.Sprintf("round %d: %d connections sent CONNECT with the same identifier at the same moment (node knows %d other sessions): %d of them were not established (no CONNACK 0, or closed by the broker before they sent anything else)", r, c.K, c.Foreign, refused), false}
		}
		for _, k := range ks {
			k.Send(sim.EncPingReq())
		}
		if f := settle(); f != nil {
			return f
		}
		m, err := n.State.SessionMetadatas().ByClientID(cid, "_default")
		served := 0
		for _, k := range ks {
			if k.Count(sim.PINGRESP) == 1 && !k.Conn.State().BrokerClosed {
				served++
				if err != nil || n.Local.SessionOf(k.Conn) != m.SessionID {
					return &failure{fmt.Sprintf("round %d: the connection still served is session %s, the node resolves the identifier to %q (%v)", r, n.Local.SessionOf(k.Conn), m.SessionID, err), false}
				}
			}
		}
		if served != 1 {
			return &failure{fmt.Sprintf("round %d: after %d simultaneous connections with one identifier each sent a PINGREQ, %d are still served, want exactly 1 (identifier resolves to %q, %v)", r, c.K, served, m.SessionID, err), false}
		}
		for _, k := range ks {
			if !k.Conn.State().BrokerClosed {
				k.Send(sim.EncDisconnect())
			}
		}
		if f := settle(); f != nil {
			return f
		}
	}
	return nil
}

func checkSimul(t ev.TB, c SimulCase) {
	ev.WriteCurrent("simultaneous", c)
	f := runSimul(c)
	if f != nil && !f.inconclusive {
		again := false
		for i := 0; i < 3 && !again; i++ {
			if f2 := runSimul(c); f2 != nil && !f2.inconclusive {
				again = true
			}
		}
		if !again {
			ev.Count("unconfirmed_failures", 1)
			f = nil
		}
	}
	ev.Case(c.K >= 3, c, "simultaneous", fmt.Sprintf("foreign:%d", c.Foreign))
	if f != nil && f.inconclusive {
		ev.Inconclusive(t, f.msg)
		return
	}
	if f != nil {
		ev.Fail(t, "simultaneous", c, "%s", f.msg)
	}
}

func init() {
	kinds["simultaneous"] = func(t ev.TB, raw json.RawMessage) {
		var c SimulCase
		ev.Decode(t, raw, &c)
		checkSimul(t, c)
	}
}

func TestSimultaneousConnects(t *testing.T) {
	rapid.Check(t, func(t *rapid.T) {
		c := SimulCase{Foreign: rapid.SampledFrom([]int{0, 2000, 20000, 20000}).Draw(t, "foreign"), K: rapid.IntRange(2, 24).Draw(t, "k"), Rounds: rapid.IntRange(1, 6).Draw(t, "rounds")}
		checkSimul(t, c)
	})
}
