// C12 — one live session per client identifier.
//
// Chains of 2–4 connections sharing a client id, on the same or different nodes, with the
// older sessions' PINGREQ / SUBSCRIBE / DISCONNECT / close events and the gossip deliveries
// interleaved in a generated order. Gossip is delivered by hand; the property's proviso is
// built in: before a node accepts connection k+1 it is delivered the broadcast that
// announces session k (and nothing else).
package c12

import (
	"encoding/json"
	"fmt"
	"testing"
	"time"

	"pgregory.net/rapid"
	"verifharness/internal/dst"
	"verifharness/internal/ev"
	"verifharness/internal/sim"
)

func TestMain(m *testing.M) { ev.Main(m, "C12") }

// Step ops: connect (next connection of the chain, on node Node), ping/sub/disconnect/close
// (connection J), gossip (deliver pending message number G mod pending to node Node),
// announce (deliver to node Node exactly the broadcast announcing connection J's session), gossipall,
// lose (an outage of the links between the brokers: every pending broadcast that is not the announcement of a
// session is lost for good), sync (memberlist's push/pull: every pair of nodes exchanges full-state snapshots),
// age (seven hours pass).
type Step struct {
	Op   string `json:"op"`
	J    int    `json:"j,omitempty"`
	Node int    `json:"node,omitempty"`
	G    int    `json:"g,omitempty"`
}

type Case struct {
	Nodes int    `json:"nodes"`
	Steps []Step `json:"steps"`
}

type failure struct {
	msg          string
	inconclusive bool
}

type conn struct {
	k      *sim.Client
	node   *sim.Node
	sid    string
	over   bool // script ended it (disconnect / close) or it was seen closed
	subbed bool
}

func run(c Case) (f *failure, nontrivial bool) {
	cl, err := sim.NewCluster()
	if err != nil {
		return &failure{err.Error(), true}, false
	}
	defer cl.Close()
	cl.AutoGossip = false
	for i := 0; i < c.Nodes; i++ {
		if _, err := cl.AddNode(sim.NodeOpts{}); err != nil {
			return &failure{err.Error(), true}, false
		}
	}
	settle := func() *failure {
		if err := cl.Settle(); err != nil {
			return &failure{err.Error(), true}
		}
		return nil
	}
	var chain []*conn
	delivered := map[string]bool{} // "msgIndex/node"
	deliver := func(i int, n *sim.Node) {
		key := fmt.Sprintf("%d/%d", i, n.ID)
		if !delivered[key] {
			delivered[key] = true
			cl.DeliverGossip(i, n)
		}
	}
	announces := func(msg []byte, sid string) bool {
		es, err := dst.Decode(msg)
		if err != nil {
			return false
		}
		for _, e := range es {
			if e.Kind == "sess" && e.Key == sid && e.Present() {
				return true
			}
		}
		return false
	}
	newSubAfterOld := false
	lost := false
	syncAll := func() {
		for i, a := range cl.Nodes {
			for _, b := range cl.Nodes[i+1:] {
				cl.FullSync(a, b)
			}
		}
	}
	for si, st := range c.Steps {
		switch st.Op {
		case "connect":
			n := cl.Nodes[st.Node%len(cl.Nodes)]
			if len(chain) > 0 {
				prev := chain[len(chain)-1]
				cl.CollectGossip()
				for i, g := range cl.Gossip() {
					if announces(g.Msg, prev.sid) {
						deliver(i, n)
					}
				}
			}
			k := cl.NewClient(fmt.Sprintf("conn%d", len(chain)))
			k.AttachTo(n)
			k.Send(sim.EncConnect(sim.ConnectOpts{ClientID: "shared-id", KeepAlive: 65535}))
			if f := settle(); f != nil {
				return f, nontrivial
			}
			if !k.Accepted {
				return &failure{fmt.Sprintf("step %d: connection %d with a client id in use was not accepted: %v", si, len(chain), k.Rx), false}, nontrivial
			}
			chain = append(chain, &conn{k: k, node: n, sid: n.Local.SessionOf(k.Conn)})
		case "ping", "sub", "disconnect", "close":
			if st.J >= len(chain) || chain[st.J].over {
				continue
			}
			x := chain[st.J]
			switch st.Op {
			case "ping":
				x.k.Send(sim.EncPingReq())
			case "sub":
				x.k.Send(sim.EncSubscribe(x.k.NextID(), []string{"t/#"}, []byte{0}))
				x.subbed = true
				if st.J == len(chain)-1 && len(chain) > 1 {
					newSubAfterOld = true
				}
			case "disconnect":
				x.k.Send(sim.EncDisconnect())
				x.over = true
			case "close":
				x.k.Close()
				x.over = true
			}
			if st.J < len(chain)-1 && newSubAfterOld {
				nontrivial = true // an old session's event / teardown happens after the new session subscribed
			}
			if f := settle(); f != nil {
				return f, nontrivial
			}
		case "gossip":
			cl.CollectGossip()
			if g := cl.Gossip(); len(g) > 0 {
				deliver(st.G%len(g), cl.Nodes[st.Node%len(cl.Nodes)])
			}
			if f := settle(); f != nil {
				return f, nontrivial
			}
		case "age":
			// seven hours pass (the connections have a keep-alive of 18 h): records grow old
			cl.Clock.Advance(7 * time.Hour)
			if f := settle(); f != nil {
				return f, nontrivial
			}
		case "sleep":
			// a second of real time passes: records carry their connection time in whole seconds
			time.Sleep(1100 * time.Millisecond)
		case "announce":
			// node Node is delivered the broadcast that announces the session of connection J and
			// nothing else: the announcement of an earlier session arriving late, before its removal
			if st.J >= len(chain) {
				continue
			}
			cl.CollectGossip()
			for i, g := range cl.Gossip() {
				if announces(g.Msg, chain[st.J].sid) {
					deliver(i, cl.Nodes[st.Node%len(cl.Nodes)])
				}
			}
			if f := settle(); f != nil {
				return f, nontrivial
			}
			if st.J < len(chain)-1 {
				nontrivial = true
			}
		case "gossipall":
			cl.DeliverAllGossip()
			if f := settle(); f != nil {
				return f, nontrivial
			}
		case "lose":
			cl.CollectGossip()
			for _, g := range cl.Gossip() {
				es, err := dst.Decode(g.Msg)
				keep := err != nil
				for _, e := range es {
					if e.Kind == "sess" && e.Present() {
						keep = true // C12's proviso: the node of the next connection knows the previous session
					}
				}
				if !keep && !g.Dead {
					g.Dead = true
					lost = true
				}
			}
		case "sync":
			syncAll()
			if f := settle(); f != nil {
				return f, nontrivial
			}
			if lost {
				nontrivial = true
			}
		}
	}
	if len(chain) < 2 {
		return nil, false
	}
	flush := func() *failure {
		for r := 0; r < 4; r++ {
			if f := settle(); f != nil {
				return f
			}
			k := cl.DeliverAllGossip()
			if lost {
				// what an outage swallowed is repaired by the periodic full-state exchange
				syncAll()
			}
			if k == 0 {
				break
			}
		}
		return settle()
	}
	if f := flush(); f != nil {
		return f, nontrivial
	}
	newest := chain[len(chain)-1]
	// (b) every node resolves the client id to the newest session
	resolve := func(when string) *failure {
		if newest.over {
			return nil // the script itself ended the newest session: nothing to resolve to
		}
		for _, n := range cl.Nodes {
			for try := 0; try < 8; try++ { // the lookup walks a Go map: ask a few times
				md, err := n.State.SessionMetadatas().ByClientID("shared-id", "_default")
				if err != nil {
					return &failure{fmt.Sprintf("%s: node %s does not resolve the client id at all (newest session %s)", when, n.Name, newest.sid), false}
				}
				if md.SessionID != newest.sid {
					return &failure{fmt.Sprintf("%s: node %s resolves the client id to %s, the newest session is %s (listed: %v)", when, n.Name, md.SessionID, newest.sid, sim.SortedSessions(n)), false}
				}
			}
		}
		return nil
	}
	if f := resolve("with all gossip delivered"); f != nil {
		return f, nontrivial
	}
	// (c) the next keep-alive exchange of every displaced session ends it
	for j, x := range chain[:len(chain)-1] {
		if x.over || x.k.Conn.State().BrokerClosed {
			continue
		}
		before := x.k.Count(sim.PINGRESP)
		x.k.Send(sim.EncPingReq())
		if f := flush(); f != nil {
			return f, nontrivial
		}
		if x.k.Count(sim.PINGRESP) != before {
			return &failure{fmt.Sprintf("displaced connection %d (session %s) still got a PINGRESP after connection %d took over (all gossip delivered)", j, x.sid, len(chain)-1), false}, nontrivial
		}
		if !x.k.Conn.State().BrokerClosed {
			return &failure{fmt.Sprintf("displaced connection %d was not closed at its keep-alive exchange", j), false}, nontrivial
		}
		if newest.subbed {
			nontrivial = true
		}
	}
	if f := flush(); f != nil {
		return f, nontrivial
	}
	if f := resolve("after the displaced sessions were torn down"); f != nil {
		return f, nontrivial
	}
	// nobody resolves the identifier to a session that is gone (ended by the script, or torn down
	// by the broker at its keep-alive exchange)
	for _, n := range cl.Nodes {
		md, err := n.State.SessionMetadatas().ByClientID("shared-id", "_default")
		if err != nil {
			continue
		}
		for j, x := range chain {
			if x.sid == md.SessionID && (x.over || x.k.Conn.State().BrokerClosed) {
				return &failure{fmt.Sprintf("node %s resolves the client id to session %s of connection %d, which has ended (listed: %v)", n.Name, x.sid, j, sim.SortedSessions(n)), false}, nontrivial
			}
		}
	}
	// global: every listed subscription belongs to a listed session (the displaced sessions'
	// subscriptions went away with them)
	for _, n := range cl.Nodes {
		listed := map[string]bool{}
		for _, m := range n.State.SessionMetadatas().All() {
			listed[m.SessionID] = true
		}
		for _, sub := range n.State.Subscriptions().All() {
			if !listed[sub.SessionID] {
				return &failure{fmt.Sprintf("node %s still lists subscription %q of session %s, which is not a listed session (a displaced session left its subscriptions behind)", n.Name, sub.Pattern, sub.SessionID), false}, nontrivial
			}
		}
	}
	// (d) the newest session is intact and served; nothing reaches the old ones any more
	if st := newest.k.Conn.State(); st.BrokerClosed && !newest.over {
		return &failure{"the newest session's connection was closed", false}, nontrivial
	}
	if newest.over {
		return nil, nontrivial
	}
	if !newest.subbed {
		newest.k.Send(sim.EncSubscribe(newest.k.NextID(), []string{"t/#"}, []byte{0}))
		if f := flush(); f != nil {
			return f, nontrivial
		}
	}
	for _, n := range cl.Nodes {
		found := false
		for _, s := range n.State.Subscriptions().All() {
			if s.SessionID == newest.sid {
				found = true
			}
		}
		if !found {
			return &failure{fmt.Sprintf("node %s lost the newest session's subscription after the older sessions were torn down", n.Name), false}, nontrivial
		}
	}
	oldCounts := make([]int, len(chain))
	for j, x := range chain {
		x.k.Pump()
		oldCounts[j] = len(x.k.Publishes())
	}
	pub := cl.NewClient("prober")
	pub.AttachTo(cl.Nodes[0])
	pub.Send(sim.EncConnect(sim.ConnectOpts{ClientID: "prober", KeepAlive: 600}))
	pub.Send(sim.EncPublish("t/probe", []byte("probe"), 1, false, false, 30000))
	if f := flush(); f != nil {
		return f, nontrivial
	}
	if got := len(newest.k.Publishes()) - oldCounts[len(chain)-1]; got != 1 {
		return &failure{fmt.Sprintf("the newest session received %d copies of a matching publish, want 1", got), false}, nontrivial
	}
	for j, x := range chain[:len(chain)-1] {
		x.k.Pump()
		if len(x.k.Publishes()) != oldCounts[j] {
			return &failure{fmt.Sprintf("displaced connection %d still received a publish after its teardown", j), false}, nontrivial
		}
	}
	return nil, nontrivial
}

func check(t ev.TB, c Case, labels ...string) {
	ev.WriteCurrent("takeover", c)
	f, nt := run(c)
	if f != nil && !f.inconclusive {
		// the client-id lookup iterates a Go map, so a failure can depend on iteration order:
		// re-run; it is reported when it shows again
		again := 0
		for i := 0; i < 4 && again == 0; i++ {
			if f2, _ := run(c); f2 != nil && !f2.inconclusive {
				again++
			}
		}
		if again == 0 {
			ev.Count("unconfirmed_failures", 1)
			f = nil
		}
	}
	conns := 0
	for _, s := range c.Steps {
		if s.Op == "connect" {
			conns++
		}
	}
	ev.Case(nt, c, append(labels, fmt.Sprintf("chain:%d", conns), fmt.Sprintf("nodes:%d", c.Nodes))...)
	if f != nil && f.inconclusive {
		ev.Inconclusive(t, f.msg)
		return
	}
	if f != nil {
		ev.Fail(t, "takeover", c, "%s", f.msg)
	}
}

var kinds = ev.Kinds{"takeover": func(t ev.TB, raw json.RawMessage) {
	var c Case
	ev.Decode(t, raw, &c)
	// order-dependent failures: try the saved case several times
	for i := 0; i < 6; i++ {
		check(t, c, "replay")
	}
}}

func TestReplayFile(t *testing.T) { ev.ReplayFile(t, kinds) }
func TestRegress(t *testing.T)    { ev.Regress(t, kinds, "testdata/regress") }

func TestRandom(t *testing.T) {
	rapid.Check(t, func(t *rapid.T) {
		c := Case{Nodes: rapid.IntRange(1, 3).Draw(t, "nodes")}
		chainLen := rapid.IntRange(2, 5).Draw(t, "chain")
		conns, ages := 0, 0
		c.Steps = append(c.Steps, Step{Op: "connect", Node: rapid.IntRange(0, c.Nodes-1).Draw(t, "node")})
		conns++
		n := rapid.IntRange(2, 16).Draw(t, "steps")
		for i := 0; i < n; i++ {
			switch x := rapid.IntRange(0, 11).Draw(t, "op"); {
			case x < 3 && conns < chainLen:
				c.Steps = append(c.Steps, Step{Op: "connect", Node: rapid.IntRange(0, c.Nodes-1).Draw(t, "node")})
				conns++
			case x < 5:
				c.Steps = append(c.Steps, Step{Op: "sub", J: rapid.IntRange(0, conns-1).Draw(t, "j")})
			case x < 7:
				c.Steps = append(c.Steps, Step{Op: "ping", J: rapid.IntRange(0, conns-1).Draw(t, "j")})
			case x < 8:
				c.Steps = append(c.Steps, Step{Op: rapid.SampledFrom([]string{"disconnect", "close"}).Draw(t, "end"), J: rapid.IntRange(0, conns-1).Draw(t, "j")})
			case x < 10 && rapid.IntRange(0, 4).Draw(t, "age") == 0:
				if ages < 4 {
					ages++
					c.Steps = append(c.Steps, Step{Op: rapid.SampledFrom([]string{"age", "age", "lose", "sync"}).Draw(t, "ageOrOutage")})
				}
			case x < 10:
				c.Steps = append(c.Steps, Step{Op: "gossip", G: rapid.IntRange(0, 40).Draw(t, "g"), Node: rapid.IntRange(0, c.Nodes-1).Draw(t, "to")})
			case x < 11:
				c.Steps = append(c.Steps, Step{Op: "announce", J: rapid.IntRange(0, conns-1).Draw(t, "j"), Node: rapid.IntRange(0, c.Nodes-1).Draw(t, "to")})
			default:
				c.Steps = append(c.Steps, Step{Op: "gossipall"})
			}
		}
		for conns < chainLen {
			c.Steps = append(c.Steps, Step{Op: "connect", Node: rapid.IntRange(0, c.Nodes-1).Draw(t, "node")})
			conns++
		}
		check(t, c)
	})
}

// TestStaleAnnouncement: every placement of a chain of 3-4 (thorough 5) connections over 2-3
// nodes; after the newest connection is accepted, its host receives — late, and before any
// removal — the announcement of each earlier session in turn, and the newest session pings
// after each: it must keep being served, and in the end every node resolves the identifier
// to it. (The lookup used to return whichever record the map iteration met first.)
func TestStaleAnnouncement(t *testing.T) {
	maxLen := ev.Scale(4, 5)
	si, sn := ev.Shard()
	idx := 0
	n := 0
	for nodes := 2; nodes <= 3; nodes++ {
		for l := 3; l <= maxLen; l++ {
			var rec func(place []int)
			rec = func(place []int) {
				if len(place) < l {
					for nd := 0; nd < nodes; nd++ {
						rec(append(place, nd))
					}
					return
				}
				idx++
				if idx%sn != si {
					return
				}
				for _, order := range []string{"oldest-first", "newest-first", "oldest-first-seconds-apart"} {
					if order == "oldest-first-seconds-apart" && (l > 3 || nodes > 2) {
						continue // costs a second of real time per connection: the smallest chains only
					}
					c := Case{Nodes: nodes}
					for k, nd := range place {
						if k > 0 && order == "oldest-first-seconds-apart" {
							c.Steps = append(c.Steps, Step{Op: "sleep"})
						}
						c.Steps = append(c.Steps, Step{Op: "connect", Node: nd})
					}
					host := place[l-1]
					for k := 0; k < l-1; k++ {
						j := k
						if order == "newest-first" {
							j = l - 2 - k
						}
						c.Steps = append(c.Steps, Step{Op: "announce", J: j, Node: host}, Step{Op: "ping", J: l - 1}, Step{Op: "ping", J: l - 1})
					}
					check(t, c, "stale-announcement")
					n++
				}
			}
			rec(nil)
		}
	}
	// old records: the first session is seven (or fourteen) hours old when it is taken over on
	// another node, and exchanges a keep-alive before it hears of that
	if si == 0 {
		for _, ages := range []int{1, 2} {
			for _, pings := range []int{1, 2} {
				c := Case{Nodes: 2, Steps: []Step{{Op: "connect", Node: 0}, {Op: "gossipall"}}}
				for k := 0; k < ages; k++ {
					c.Steps = append(c.Steps, Step{Op: "age"})
				}
				c.Steps = append(c.Steps, Step{Op: "connect", Node: 1})
				for k := 0; k < pings; k++ {
					c.Steps = append(c.Steps, Step{Op: "ping", J: 0})
				}
				c.Steps = append(c.Steps, Step{Op: "sub", J: 1}, Step{Op: "gossipall"}, Step{Op: "ping", J: 1})
				check(t, c, "aged-record")
				n++
			}
		}
	}
	ev.Exhaustive(fmt.Sprintf("late announcements (shard %d/%d): all placements of chains of 3..%d connections over 2 and 3 nodes; the newest session's host is handed the announcement of every earlier session (oldest first / newest first), the newest session pings after each", si, sn, maxLen))
}

// TestOutage: a takeover on another node while the links between the brokers are down: the removal of
// the old session's record reaches the old session's host only through the full-state exchange, 0-28
// hours later (connections have a keep-alive of 18 h). Whenever the exchange happens, the old
// session goes at its next keep-alive exchange and every node resolves the identifier to the new
// session (or to nothing once that one has left) — never to the displaced one again.
func TestOutage(t *testing.T) {
	for nodes := 2; nodes <= 3; nodes++ {
		for ages := 0; ages <= 4; ages++ {
			for _, newestLeaves := range []string{"", "before-sync", "after-sync"} {
				for _, oldPings := range []bool{false, true} {
					c := Case{Nodes: nodes, Steps: []Step{{Op: "connect", Node: 0}, {Op: "sub", J: 0}, {Op: "gossipall"}, {Op: "connect", Node: 1}, {Op: "sub", J: 1}, {Op: "lose"}}}
					for k := 0; k < ages; k++ {
						c.Steps = append(c.Steps, Step{Op: "age"})
					}
					if newestLeaves == "before-sync" {
						c.Steps = append(c.Steps, Step{Op: "disconnect", J: 1}, Step{Op: "lose"})
					}
					c.Steps = append(c.Steps, Step{Op: "sync"})
					if oldPings {
						c.Steps = append(c.Steps, Step{Op: "ping", J: 0})
					}
					if newestLeaves == "after-sync" {
						c.Steps = append(c.Steps, Step{Op: "disconnect", J: 1}, Step{Op: "sync"})
					}
					check(t, c, "outage")
				}
			}
		}
	}
}
