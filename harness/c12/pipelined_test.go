package c12

import (
	"encoding/json"
	"fmt"
	"testing"

	"github.com/golang/protobuf/proto"
	"github.com/vx-labs/wasp/v4/wasp/api"
	"pgregory.net/rapid"
	"verifharness/internal/ev"
	"verifharness/internal/sim"
)

// PipeCase: takeovers in which the displacing client does not wait for CONNACK: CONNECT and
// PINGREQ arrive in one write (MQTT 3.1.1 §3.1 allows further packets right after CONNECT).
// The new session's own PINGREQ is then processed while connection setup may still be
// replacing the records of the identifier; it must resolve to the new session all the same.
// Foreign unrelated session records (announced by a peer) make the node's table as large as
// a loaded broker's. Every takeover is judged; the case fails if any of them does.
type PipeCase struct {
	Nodes     int  `json:"nodes"`      // 1 or 2
	Foreign   int  `json:"foreign"`    // unrelated session records known to every node
	Takeovers int  `json:"takeovers"`  // number of identifiers taken over, one after the other
	CrossNode bool `json:"cross_node"` // the displacing connection goes to the other node
	Extra     int  `json:"extra"`      // 0: CONNECT+PINGREQ, 1: CONNECT+PINGREQ+PINGREQ, 2: CONNECT+SUBSCRIBE+PINGREQ
}

func runPipe(c PipeCase) *failure {
	cl, err := sim.NewCluster()
	if err != nil {
		return &failure{err.Error(), true}
	}
	defer cl.Close()
	for i := 0; i < c.Nodes; i++ {
		if _, err := cl.AddNode(sim.NodeOpts{}); err != nil {
			return &failure{err.Error(), true}
		}
	}
	settle := func() *failure {
		if err := cl.Settle(); err != nil {
			return &failure{err.Error(), true}
		}
		return nil
	}
	if c.Foreign > 0 {
		evt := &api.StateBroadcastEvent{}
		for i := 0; i < c.Foreign; i++ {
			evt.SessionMetadatas = append(evt.SessionMetadatas, &api.SessionMetadatas{SessionID: fmt.Sprintf("foreign-s%d", i), ClientID: fmt.Sprintf("foreign-%d", i), Peer: 77, MountPoint: "_default", ConnectedAt: 1, LastAdded: 1})
		}
		buf, err := proto.Marshal(evt)
		if err != nil {
			return &failure{err.Error(), true}
		}
		for _, n := range cl.Nodes {
			n.State.Distributor().NotifyMsg(buf)
		}
	}
	for i := 0; i < c.Takeovers; i++ {
		cid := fmt.Sprintf("pipe-%d", i)
		na := cl.Nodes[0]
		nb := na
		if c.CrossNode && len(cl.Nodes) > 1 {
			nb = cl.Nodes[1]
		}
		a := cl.NewClient(fmt.Sprintf("a%d", i))
		a.AttachTo(na)
		a.Send(sim.EncConnect(sim.ConnectOpts{ClientID: cid, KeepAlive: 600}))
		if f := settle(); f != nil {
			return f
		}
		if !a.Accepted {
			return &failure{fmt.Sprintf("takeover %d: first connection not accepted: %v", i, a.Rx), false}
		}
		sidA := na.Local.SessionOf(a.Conn)
		b := cl.NewClient(fmt.Sprintf("b%d", i))
		b.AttachTo(nb)
		burst := sim.EncConnect(sim.ConnectOpts{ClientID: cid, KeepAlive: 600})
		pings := 1
		switch c.Extra {
		case 1:
			burst = append(burst, sim.EncPingReq()...)
			pings = 2
		case 2:
			burst = append(burst, sim.EncSubscribe(1, []string{"p/#"}, []byte{0})...)
		}
		burst = append(burst, sim.EncPingReq()...)
		b.Send(burst)
		if f := settle(); f != nil {
			return f
		}
		sidB := nb.Local.SessionOf(b.Conn)
		switch {
		case !b.Accepted:
			return &failure{fmt.Sprintf("takeover %d (%d foreign records): the displacing connection sent CONNECT and PINGREQ back to back and was not accepted: received %v, connection closed by the broker: %v", i, c.Foreign, b.Rx, b.Conn.State().BrokerClosed), false}
		case b.Conn.State().BrokerClosed:
			return &failure{fmt.Sprintf("takeover %d (%d foreign records): the broker closed the displacing connection (received %v)", i, c.Foreign, b.Rx), false}
		case b.Count(sim.PINGRESP) != pings:
			return &failure{fmt.Sprintf("takeover %d (%d foreign records): the new session's pipelined PINGREQ got %d PINGRESP, want %d (received %v)", i, c.Foreign, b.Count(sim.PINGRESP), pings, b.Rx), false}
		case c.Extra == 2 && !b.Has(sim.SUBACK, 1):
			return &failure{fmt.Sprintf("takeover %d: pipelined SUBSCRIBE got no SUBACK (received %v)", i, b.Rx), false}
		}
		// the identifier resolves to the new session, and to nothing else, on the accepting node
		n := 0
		for _, m := range nb.State.SessionMetadatas().All() {
			if m.ClientID == cid {
				n++
				if m.SessionID != sidB {
					return &failure{fmt.Sprintf("takeover %d: node %s lists session %s for the identifier, the new session is %s (displaced: %s)", i, nb.Name, m.SessionID, sidB, sidA), false}
				}
			}
		}
		if n != 1 {
			return &failure{fmt.Sprintf("takeover %d: node %s lists %d records for the identifier after the takeover, want 1", i, nb.Name, n), false}
		}
		// everything gossiped; the displaced session learns about it at its next keep-alive exchange
		for r := 0; r < 5 && cl.DeliverAllGossip() > 0; r++ {
			if f := settle(); f != nil {
				return f
			}
		}
		a.Send(sim.EncPingReq())
		if f := settle(); f != nil {
			return f
		}
		if a.Count(sim.PINGRESP) != 0 || !a.Conn.State().BrokerClosed {
			return &failure{fmt.Sprintf("takeover %d: the displaced session pinged: %d PINGRESP, connection closed: %v (want 0, true)", i, a.Count(sim.PINGRESP), a.Conn.State().BrokerClosed), false}
		}
		b.Send(sim.EncPingReq())
		if f := settle(); f != nil {
			return f
		}
		if b.Count(sim.PINGRESP) != pings+1 || b.Conn.State().BrokerClosed {
			return &failure{fmt.Sprintf("takeover %d: the new session's later PINGREQ: %d PINGRESP in all (want %d), closed: %v", i, b.Count(sim.PINGRESP), pings+1, b.Conn.State().BrokerClosed), false}
		}
		for _, nd := range cl.Nodes {
			m, err := nd.State.SessionMetadatas().ByClientID(cid, "_default")
			if err != nil || m.SessionID != sidB {
				return &failure{fmt.Sprintf("takeover %d: after all gossip node %s resolves the identifier to %q (%v), want %s", i, nd.Name, m.SessionID, err, sidB), false}
			}
		}
		b.Send(sim.EncDisconnect())
		if f := settle(); f != nil {
			return f
		}
		for r := 0; r < 5 && cl.DeliverAllGossip() > 0; r++ {
			if f := settle(); f != nil {
				return f
			}
		}
	}
	return nil
}

func checkPipe(t ev.TB, c PipeCase, labels ...string) {
	ev.WriteCurrent("pipelined-takeover", c)
	f := runPipe(c)
	if f != nil && !f.inconclusive {
		// schedule dependent: confirm by re-execution (the case repeats the takeover many times)
		again := 0
		for i := 0; i < 3 && again == 0; i++ {
			if f2 := runPipe(c); f2 != nil && !f2.inconclusive {
				again++
			}
		}
		if again == 0 {
			ev.Count("unconfirmed_failures", 1)
			f = nil
		}
	}
	labels = append(labels, fmt.Sprintf("foreign:%d", c.Foreign), fmt.Sprintf("extra:%d", c.Extra))
	ev.Case(c.Takeovers >= 10, c, labels...)
	ev.Count("pipelined_takeovers", int64(c.Takeovers))
	if f != nil && f.inconclusive {
		ev.Inconclusive(t, f.msg)
		return
	}
	if f != nil {
		ev.Fail(t, "pipelined-takeover", c, "%s", f.msg)
	}
}

func init() {
	kinds["pipelined-takeover"] = func(t ev.TB, raw json.RawMessage) {
		var c PipeCase
		ev.Decode(t, raw, &c)
		checkPipe(t, c, "replay")
	}
}

func TestPipelinedTakeover(t *testing.T) {
	rapid.Check(t, func(t *rapid.T) {
		c := PipeCase{Nodes: rapid.IntRange(1, 2).Draw(t, "nodes"), Foreign: rapid.SampledFrom([]int{0, 2000, 20000, 20000}).Draw(t, "foreign"),
			Takeovers: rapid.SampledFrom([]int{10, 25, 40}).Draw(t, "takeovers"), Extra: rapid.IntRange(0, 2).Draw(t, "extra")}
		c.CrossNode = c.Nodes == 2 && rapid.Bool().Draw(t, "crossNode")
		checkPipe(t, c)
	})
}
