package c12

// The moment the new connection holds its CONNACK the takeover has happened: a PINGREQ that the
// earlier session sends at that very moment is its "next keep-alive exchange" - it is not
// answered and the connection is closed - and the node resolves the identifier to the new
// session. The fake connection hands every chunk written to the new client to a hook before the
// broker's write returns; the hook makes the old client ping and waits for the outcome.

import (
	"encoding/json"
	"fmt"
	"testing"
	"time"

	"github.com/golang/protobuf/proto"
	"github.com/vx-labs/wasp/v4/wasp/api"
	"pgregory.net/rapid"
	"verifharness/internal/ev"
	"verifharness/internal/sim"
)

type ConnAckCase struct {
	Foreign int  `json:"foreign"`
	Chain   int  `json:"chain"`    // takeovers in a row on the same identifier
	OldSubs bool `json:"old_subs"` // the earlier session holds a subscription
	// (Only the PINGREQ is judged: the property lets a displaced session be served until "its next
	// keep-alive exchange", and the broker indeed answers its SUBSCRIBE or PUBLISH until then.)
}

func runConnAck(c ConnAckCase) *failure {
	cl, err := sim.NewCluster()
	if err != nil {
		return &failure{err.Error(), true}
	}
	defer cl.Close()
	n, err := cl.AddNode(sim.NodeOpts{})
	if err != nil {
		return &failure{err.Error(), true}
	}
	if c.Foreign > 0 {
		evt := &api.StateBroadcastEvent{}
		for i := 0; i < c.Foreign; i++ {
			evt.SessionMetadatas = append(evt.SessionMetadatas, &api.SessionMetadatas{SessionID: fmt.Sprintf("foreign-s%d", i), ClientID: fmt.Sprintf("foreign-%d", i), Peer: 77, MountPoint: "_default", ConnectedAt: 1, LastAdded: 1})
		}
		buf, err := proto.Marshal(evt)
		if err != nil {
			return &failure{err.Error(), true}
		}
		n.State.Distributor().NotifyMsg(buf)
	}
	old := cl.NewClient("k0")
	old.AttachTo(n)
	old.Send(sim.EncConnect(sim.ConnectOpts{ClientID: "same", KeepAlive: 600}))
	if c.OldSubs {
		old.Send(sim.EncSubscribe(1, []string{"o/#"}, []byte{1}))
	}
	if err := cl.Settle(); err != nil {
		return &failure{err.Error(), true}
	}
	for i := 1; i <= c.Chain; i++ {
		nw := cl.NewClient(fmt.Sprintf("k%d", i))
		nw.AttachTo(n)
		done := make(chan string, 1)
		prev := old
		answered := prev.Count(sim.PINGRESP)
		nw.Conn.WhenWritten([]byte{0x20, 0x02, 0x00, 0x00}, func() {
			prev.Send(sim.EncPingReq())
			for until := time.Now().Add(10 * time.Second); time.Now().Before(until); time.Sleep(200 * time.Microsecond) {
				prev.Pump()
				st := prev.Conn.State()
				if st.BrokerClosed {
					done <- ""
					return
				}
				if prev.Count(sim.PINGRESP) > answered {
					done <- fmt.Sprintf("takeover %d: the new connection held its CONNACK when the earlier session sent its PINGREQ, and that PINGREQ was answered (received %v)", i, prev.Rx)
					return
				}
			}
			done <- "inconclusive: the earlier session's packet was neither answered nor its connection closed within 10 s"
		})
		nw.Send(sim.EncConnect(sim.ConnectOpts{ClientID: "same", KeepAlive: 600}))
		select {
		case msg := <-done:
			if msg != "" {
				return &failure{msg, len(msg) > 12 && msg[:12] == "inconclusive"}
			}
		case <-time.After(40 * time.Second):
			return &failure{"no CONNACK seen within 40 s", true}
		}
		if err := cl.Settle(); err != nil {
			return &failure{err.Error(), true}
		}
		if !nw.Accepted || nw.Conn.State().BrokerClosed {
			return &failure{fmt.Sprintf("takeover %d: the new connection was not established", i), false}
		}
		m, err := n.State.SessionMetadatas().ByClientID("same", "_default")
		if err != nil || m.SessionID != n.Local.SessionOf(nw.Conn) {
			return &failure{fmt.Sprintf("takeover %d: the node resolves the identifier to %q (%v), the new session is %q", i, m.SessionID, err, n.Local.SessionOf(nw.Conn)), false}
		}
		nw.Send(sim.EncPingReq())
		if err := cl.Settle(); err != nil {
			return &failure{err.Error(), true}
		}
		if nw.Count(sim.PINGRESP) != 1 || nw.Conn.State().BrokerClosed {
			return &failure{fmt.Sprintf("takeover %d: after the displaced session was torn down the new session's PINGREQ got %d PINGRESP, closed: %v", i, nw.Count(sim.PINGRESP), nw.Conn.State().BrokerClosed), false}
		}
		old = nw
	}
	return nil
}

func checkConnAck(t ev.TB, c ConnAckCase) {
	ev.WriteCurrent("ping-at-connack", c)
	f := runConnAck(c)
	if f != nil && !f.inconclusive {
		if f2 := runConnAck(c); f2 == nil || f2.inconclusive {
			ev.Count("unconfirmed_failures", 1)
			f = nil
		}
	}
	ev.Case(true, c, "ping-at-connack", fmt.Sprintf("foreign:%d", c.Foreign))
	if f != nil && f.inconclusive {
		ev.Inconclusive(t, f.msg)
		return
	}
	if f != nil {
		ev.Fail(t, "ping-at-connack", c, "%s", f.msg)
	}
}

func init() {
	kinds["ping-at-connack"] = func(t ev.TB, raw json.RawMessage) {
		var c ConnAckCase
		ev.Decode(t, raw, &c)
		checkConnAck(t, c)
	}
}

func TestOldSessionAtConnAck(t *testing.T) {
	rapid.Check(t, func(t *rapid.T) {
		checkConnAck(t, ConnAckCase{Foreign: rapid.SampledFrom([]int{0, 0, 2000, 20000}).Draw(t, "foreign"), Chain: rapid.IntRange(1, 4).Draw(t, "chain"),
			OldSubs: rapid.Bool().Draw(t, "oldSubs")})
	})
}
