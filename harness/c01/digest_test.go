package c01

import (
	"fmt"
	"hash/adler32"
	"hash/crc32"
	"hash/fnv"
	"strconv"
	"testing"

	"verifharness/internal/ev"
	"verifharness/internal/sim"
)

// TestDigestCollisions: whether a session receives a message depends on the filter and the
// topic only — not on a digest of the topic. For each of the usual 32-bit hash functions a
// pair of distinct topic names with the same digest is searched (birthday search over
// "dev<i>/temp", with and without the mount-point prefix the broker puts in front), one
// client subscribes to each, and both topics are published alternately with no subscription
// change in between: every publish must reach exactly the subscriber of its own topic.
// 64-bit digests are out of reach of a search; 32-bit ones are what a "cheap key" would use.
func TestDigestCollisions(t *testing.T) {
	type hf struct {
		name string
		f    func([]byte) uint32
	}
	hs := []hf{
		{"fnv32a", func(b []byte) uint32 { h := fnv.New32a(); h.Write(b); return h.Sum32() }},
		{"fnv32", func(b []byte) uint32 { h := fnv.New32(); h.Write(b); return h.Sum32() }},
		{"crc32-ieee", crc32.ChecksumIEEE},
		{"crc32-castagnoli", func(b []byte) uint32 { return crc32.Checksum(b, crc32.MakeTable(crc32.Castagnoli)) }},
		{"adler32", adler32.Checksum},
		{"fnv64a-folded", func(b []byte) uint32 { h := fnv.New64a(); h.Write(b); v := h.Sum64(); return uint32(v) ^ uint32(v>>32) }},
		{"fnv64a-low", func(b []byte) uint32 { h := fnv.New64a(); h.Write(b); return uint32(h.Sum64()) }},
	}
	n := 0
	for _, h := range hs {
		for _, prefix := range []string{"_default/", ""} {
			// sequential names disperse badly under FNV: a pair may need a few million candidates
			seen := make(map[uint32]int32, 1<<21)
			a, b := -1, -1
			buf := make([]byte, 0, 64)
			for i := 0; i < 4000000 && a < 0; i++ {
				buf = append(buf[:0], prefix...)
				buf = append(buf, "dev"...)
				buf = strconv.AppendInt(buf, int64(i), 10)
				buf = append(buf, "/temp"...)
				d := h.f(buf)
				if j, ok := seen[d]; ok {
					a, b = int(j), i
				}
				seen[d] = int32(i)
			}
			if a < 0 {
				continue
			}
			t1, t2 := fmt.Sprintf("dev%d/temp", a), fmt.Sprintf("dev%d/temp", b)
			for _, order := range [][2]string{{t1, t2}, {t2, t1}} {
				c := E2E{Nodes: 1, Clients: 3, Steps: []sim.Step{
					{Op: "connect", C: 0, ClientID: "c0", KeepAlive: 6000},
					{Op: "connect", C: 1, ClientID: "c1", KeepAlive: 6000},
					{Op: "connect", C: 2, ClientID: "c2", KeepAlive: 6000},
					{Op: "sub", C: 0, Filters: []string{t1}, QoS: []int{0}},
					{Op: "sub", C: 1, Filters: []string{t2}, QoS: []int{1}},
					{Op: "pub", C: 2, Topic: order[0], Payload: "first", PQoS: 1},
					{Op: "pub", C: 2, Topic: order[1], Payload: "second", PQoS: 1},
					{Op: "pub", C: 2, Topic: order[0], Payload: "third", PQoS: 0},
					{Op: "pub", C: 2, Topic: order[1], Payload: "fourth", PQoS: 0},
				}}
				checkE2E(t, c, "digest-collision", "hash:"+h.name)
				n++
			}
		}
	}
	ev.Exhaustive(fmt.Sprintf("%d scenarios: topic pairs colliding under fnv32/fnv32a/crc32 (two polynomials)/adler32/folded fnv64a, with and without the mount-point prefix, published alternately between subscription changes", n))
}
