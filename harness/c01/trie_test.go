// C01 — a publish reaches exactly the sessions whose filters match its topic.
//
// This file: the structure (L1) and replicated-state (L2) observation points — Tree.Walk
// callbacks and SubscriptionsState.ByPattern — against the reference MQTT matcher.
// e2e_test.go drives the same oracle through a running broker.
package c01

import (
	"encoding/json"
	"fmt"
	"sort"
	"strings"
	"testing"

	"github.com/vx-labs/wasp/v4/subscriptions"
	"pgregory.net/rapid"
	"verifharness/internal/dst"
	"verifharness/internal/ev"
	"verifharness/internal/ref"
)

func TestMain(m *testing.M) { ev.Main(m, "C01") }

var kinds = ev.Kinds{}

func TestReplayFile(t *testing.T) { ev.ReplayFile(t, kinds) }
func TestRegress(t *testing.T)    { ev.Regress(t, kinds, "testdata/regress") }

// ---- enumeration of the small universe ---------------------------------------------------

func lists(alphabet []string, minLen, maxLen int) [][]string {
	var out [][]string
	var rec func(cur []string)
	rec = func(cur []string) {
		if len(cur) >= minLen {
			out = append(out, append([]string{}, cur...))
		}
		if len(cur) == maxLen {
			return
		}
		for _, a := range alphabet {
			rec(append(cur, a))
		}
	}
	rec(nil)
	return out
}

// universe: topics = level lists of length 1..4 over {a,b,c,ε}; filters = lists of length
// 1..4 over {a,b,c,ε,+}, plus lists of length 0..3 followed by '#'. The empty string is
// neither a topic nor a filter.
func universe() (topics, filters []string) {
	for _, l := range lists([]string{"a", "b", "c", ""}, 1, 4) {
		if s := strings.Join(l, "/"); s != "" {
			topics = append(topics, s)
		}
	}
	fa := []string{"a", "b", "c", "", "+"}
	for _, l := range lists(fa, 1, 4) {
		if s := strings.Join(l, "/"); s != "" {
			filters = append(filters, s)
		}
	}
	for _, l := range lists(fa, 0, 3) {
		filters = append(filters, strings.Join(append(append([]string{}, l...), "#"), "/"))
	}
	return
}

// PairCase: one filter alone in the index, one topic.
type PairCase struct {
	Filter string `json:"filter"`
	Topic  string `json:"topic"`
}

func walkHits(tr subscriptions.Tree, topic string) []string {
	var out []string
	tr.Walk([]byte(topic), func(b []byte) {
		if len(b) > 0 {
			out = append(out, string(b))
		}
	})
	sort.Strings(out)
	return out
}

func runPair(c PairCase) string {
	tr := subscriptions.NewTree()
	tr.Upsert([]byte(c.Filter), func([]byte) []byte { return []byte(c.Filter) })
	got := walkHits(tr, c.Topic)
	want := ref.MatchS(c.Filter, c.Topic)
	switch {
	case want && (len(got) != 1 || got[0] != c.Filter):
		return fmt.Sprintf("filter %q must match topic %q; Walk yielded %q", c.Filter, c.Topic, got)
	case !want && len(got) != 0:
		return fmt.Sprintf("filter %q must not match topic %q; Walk yielded %q", c.Filter, c.Topic, got)
	}
	return ""
}

func init() {
	kinds["trie-pair"] = func(t ev.TB, raw json.RawMessage) {
		var c PairCase
		ev.Decode(t, raw, &c)
		ev.Case(true, c, "replay")
		if m := runPair(c); m != "" {
			ev.Fail(t, "trie-pair", c, "%s", m)
		}
	}
}

// TestPairs: every filter × every topic of the universe, the filter alone in the index.
func TestPairs(t *testing.T) {
	topics, filters := universe()
	si, sn := ev.Shard()
	n := 0
	for fi, f := range filters {
		if fi%sn != si {
			continue
		}
		special := strings.ContainsAny(f, "+#") || strings.Contains("/"+f+"/", "//")
		for _, tp := range topics {
			c := PairCase{f, tp}
			nt := special || strings.Contains("/"+tp+"/", "//")
			ev.CaseKey(nt, f+"\x00"+tp, func() interface{} { return c }, "pair")
			n++
			if m := runPair(c); m != "" {
				ev.Fail(t, "trie-pair", c, "%s", m)
			}
		}
	}
	ev.Exhaustive(fmt.Sprintf("subscriptions.Tree (shard %d/%d): all %d filters x %d topics of up to 4 levels over {a,b,c,empty} (+ '+', trailing '#'), one filter at a time", si, sn, len(filters), len(topics)))
}

// ---- sets of filters: the answer for a set is the union of the single answers ------------

type SetCase struct {
	Filters []string `json:"filters"`
	Via     string   `json:"via"`              // "tree" | "state"
	Topics  []string `json:"topics,omitempty"` // empty = the whole universe
	// Removed (via "state" only): filters that were subscribed and unsubscribed again before the
	// queries — they must make no difference, however many there are
	Removed []string `json:"removed,omitempty"`
}

func runSet(c SetCase) (string, bool) {
	topics := c.Topics
	if len(topics) == 0 {
		topics, _ = universe()
	}
	nt := false
	for i, f := range c.Filters {
		for j, g := range c.Filters {
			if i < j && (strings.HasPrefix(g, strings.TrimSuffix(strings.TrimSuffix(f, "#"), "+")) || strings.HasPrefix(f, strings.TrimSuffix(strings.TrimSuffix(g, "#"), "+"))) {
				nt = true
			}
		}
	}
	var hits func(topic string) []string
	switch c.Via {
	case "tree":
		tr := subscriptions.NewTree()
		for _, f := range c.Filters {
			f := f
			tr.Upsert([]byte(f), func(old []byte) []byte { return []byte(f) })
		}
		hits = func(topic string) []string { return walkHits(tr, topic) }
	default:
		defer dst.InstallClock()()
		n := dst.NewNode(1)
		for i, f := range c.Filters {
			dst.SetNow(int64(1000 + i))
			n.State.Subscriptions().Create(fmt.Sprintf("s%d", i), []byte("mp/"+f), int32(i%3))
		}
		for i, f := range c.Removed {
			dst.SetNow(int64(100000 + 2*i))
			n.State.Subscriptions().Create(fmt.Sprintf("r%d", i), []byte("mp/"+f), 0)
			dst.SetNow(int64(100001 + 2*i))
			n.State.Subscriptions().Delete(fmt.Sprintf("r%d", i), []byte("mp/"+f))
		}
		hits = func(topic string) []string {
			var out []string
			for _, s := range n.State.Subscriptions().ByPattern([]byte("mp/" + topic)) {
				out = append(out, strings.TrimPrefix(string(s.Pattern), "mp/"))
			}
			sort.Strings(out)
			return out
		}
	}
	for _, tp := range topics {
		var want []string
		seen := map[string]bool{}
		for _, f := range c.Filters {
			if ref.MatchS(f, tp) && (c.Via != "tree" || !seen[f]) {
				want = append(want, f)
				seen[f] = true
			}
		}
		sort.Strings(want)
		got := hits(tp)
		if strings.Join(got, "\x00") != strings.Join(want, "\x00") {
			return fmt.Sprintf("topic %q with filters %q: got matches %q, reference says %q", tp, c.Filters, got, want), nt
		}
	}
	return "", nt
}

func init() {
	kinds["filter-set"] = func(t ev.TB, raw json.RawMessage) {
		var c SetCase
		ev.Decode(t, raw, &c)
		m, nt := runSet(c)
		ev.Case(nt, c, "replay")
		if m != "" {
			ev.Fail(t, "filter-set", c, "%s", m)
		}
	}
}

var levelPool = []string{"a", "b", "c", "", "+", "ab", "é", "a b", "A", "0", "$SYS", "aa"}

func genFilter(t *rapid.T, deep bool) string {
	max := 4
	if deep {
		max = 8
	}
	n := rapid.IntRange(0, max).Draw(t, "levels")
	var ls []string
	for i := 0; i < n; i++ {
		if deep {
			ls = append(ls, rapid.SampledFrom(levelPool).Draw(t, "lvl"))
		} else {
			ls = append(ls, rapid.SampledFrom(levelPool[:5]).Draw(t, "lvl"))
		}
	}
	if n == 0 || rapid.IntRange(0, 3).Draw(t, "hash") == 0 {
		ls = append(ls, "#")
	}
	s := strings.Join(ls, "/")
	if s == "" {
		s = "+"
	}
	return s
}

func genTopic(t *rapid.T) string {
	n := rapid.IntRange(1, 8).Draw(t, "levels")
	var ls []string
	for i := 0; i < n; i++ {
		l := rapid.SampledFrom(levelPool).Draw(t, "lvl")
		if l == "+" {
			l = "a"
		}
		ls = append(ls, l)
	}
	s := strings.Join(ls, "/")
	if s == "" {
		s = "a"
	}
	return s
}

// TestSets: 2–12 filters together in the index × all topics of the universe (small
// alphabet), or × generated deep topics (5–8 levels, longer / UTF-8 levels).
func TestSets(t *testing.T) {
	rapid.Check(t, func(t *rapid.T) {
		deep := rapid.IntRange(0, 3).Draw(t, "deep") == 0
		c := SetCase{Via: rapid.SampledFrom([]string{"tree", "state"}).Draw(t, "via")}
		n := rapid.IntRange(2, 12).Draw(t, "n")
		for i := 0; i < n; i++ {
			c.Filters = append(c.Filters, genFilter(t, deep))
		}
		label := "small-alphabet-all-topics"
		if deep {
			label = "deep"
			for i := 0; i < 40; i++ {
				c.Topics = append(c.Topics, genTopic(t))
			}
			// make sure some topics are near the filters
			for _, f := range c.Filters {
				tp := strings.ReplaceAll(strings.ReplaceAll(f, "+", "x"), "#", "y/z")
				c.Topics = append(c.Topics, tp, strings.TrimSuffix(strings.TrimSuffix(f, "#"), "/")+"")
			}
			var clean []string
			for _, tp := range c.Topics {
				if tp != "" && !strings.ContainsAny(tp, "+#") {
					clean = append(clean, tp)
				}
			}
			c.Topics = clean
			// depth: everything below a common prefix of k levels, so that topics and filters have
			// 20, 32, 33, 64, 130 … levels (a bound on the number of levels anywhere shows here)
			if k := rapid.SampledFrom([]int{0, 0, 14, 23, 24, 25, 28, 29, 30, 31, 32, 33, 62, 63, 64, 127, 130, 260}).Draw(t, "prefixLevels"); k > 0 {
				label = "very-deep"
				pre := strings.Repeat("d/", k)
				for i := range c.Filters {
					c.Filters[i] = pre + c.Filters[i]
				}
				for i := range c.Topics {
					c.Topics[i] = pre + c.Topics[i]
				}
			}
		}
		m, nt := runSet(c)
		ev.Case(nt, c, label, "via:"+c.Via)
		if m != "" {
			ev.Fail(t, "filter-set", c, "%s", m)
		}
	})
}

// ---- histories leading to the same active set -----------------------------------------

type HOp struct {
	Op     string `json:"op"` // sub | unsub | unsuball (DeleteSession)
	Sess   int    `json:"sess"`
	Filter int    `json:"filter"`
	QoS    int32  `json:"qos"`
}

type HistCase struct {
	Pool    []string `json:"filter_pool"`
	Ops     []HOp    `json:"ops"`
	Shuffle []int    `json:"shuffle"` // order in which the canonical rebuild subscribes the final active set
}

func probeTopics(pool []string) []string {
	set := map[string]bool{}
	for _, f := range pool {
		base := strings.ReplaceAll(f, "+", "a")
		set[strings.TrimSuffix(strings.TrimSuffix(base, "#"), "/")] = true
		set[strings.ReplaceAll(base, "#", "b")] = true
		set[strings.ReplaceAll(base, "#", "b/c")] = true
		set[strings.ReplaceAll(strings.ReplaceAll(f, "+", "c"), "#", "")] = true
		set[base+"/a"] = true
	}
	for _, tp := range []string{"a", "b", "a/b", "a/b/c", "a/", "/a", "a//b", "c/a"} {
		set[tp] = true
	}
	var out []string
	for tp := range set {
		if tp != "" && !strings.ContainsAny(tp, "+#") {
			out = append(out, tp)
		}
	}
	sort.Strings(out)
	return out
}

func byPattern(n *dst.Node, topic string) []string {
	var out []string
	for _, s := range n.State.Subscriptions().ByPattern([]byte("mp/" + topic)) {
		out = append(out, fmt.Sprintf("%s|%s q%d", strings.TrimPrefix(string(s.Pattern), "mp/"), s.SessionID, s.QoS))
	}
	sort.Strings(out)
	return out
}

func runHist(c HistCase) (string, bool) {
	defer dst.InstallClock()()
	clock := int64(1000)
	a := dst.NewNode(1)
	type key struct {
		sess   int
		filter int
	}
	active := map[key]int32{}
	nt := false
	unsubbed := false
	topics := probeTopics(c.Pool)
	// look: every probe topic is looked up in the middle of the history (what a publish arriving
	// at that moment does) and must see the active set of that moment - an index that remembers
	// anything from one lookup to the next shows here
	look := func(step int) string {
		for _, tp := range topics {
			var want []string
			for k, q := range active {
				if ref.MatchS(c.Pool[k.filter], tp) {
					want = append(want, fmt.Sprintf("%s|s%d q%d", c.Pool[k.filter], k.sess, q))
				}
			}
			sort.Strings(want)
			if ga := byPattern(a, tp); strings.Join(ga, "\x00") != strings.Join(want, "\x00") {
				return fmt.Sprintf("topic %q looked up after step %d: ByPattern yields %q, reference %q", tp, step, ga, want)
			}
		}
		return ""
	}
	for i, op := range c.Ops {
		clock++
		dst.SetNow(clock)
		sid := fmt.Sprintf("s%d", op.Sess)
		switch op.Op {
		case "look":
			if m := look(i); m != "" {
				return m, nt
			}
		case "sub":
			if unsubbed {
				nt = true // re-subscribe / subscribe after an unsubscribe
			}
			a.State.Subscriptions().Create(sid, []byte("mp/"+c.Pool[op.Filter]), op.QoS)
			active[key{op.Sess, op.Filter}] = op.QoS
		case "unsub":
			a.State.Subscriptions().Delete(sid, []byte("mp/"+c.Pool[op.Filter]))
			delete(active, key{op.Sess, op.Filter})
			unsubbed = true
		case "unsuball":
			a.State.Subscriptions().DeleteSession(sid)
			for k := range active {
				if k.sess == op.Sess {
					delete(active, k)
				}
			}
			unsubbed = true
		}
	}
	// the same final active set, built directly, in a generated order
	var keys []key
	for k := range active {
		keys = append(keys, k)
	}
	sort.Slice(keys, func(i, j int) bool {
		if keys[i].sess != keys[j].sess {
			return keys[i].sess < keys[j].sess
		}
		return keys[i].filter < keys[j].filter
	})
	order := make([]key, 0, len(keys))
	used := map[int]bool{}
	for _, i := range c.Shuffle {
		if i >= 0 && i < len(keys) && !used[i] {
			order = append(order, keys[i])
			used[i] = true
		}
	}
	for i, k := range keys {
		if !used[i] {
			order = append(order, k)
		}
	}
	b := dst.NewNode(1)
	for _, k := range order {
		clock++
		dst.SetNow(clock)
		b.State.Subscriptions().Create(fmt.Sprintf("s%d", k.sess), []byte("mp/"+c.Pool[k.filter]), active[k])
	}
	for _, tp := range topics {
		var want []string
		for _, k := range keys {
			if ref.MatchS(c.Pool[k.filter], tp) {
				want = append(want, fmt.Sprintf("%s|s%d q%d", c.Pool[k.filter], k.sess, active[k]))
			}
		}
		sort.Strings(want)
		ga, gb := byPattern(a, tp), byPattern(b, tp)
		if strings.Join(ga, "\x00") != strings.Join(want, "\x00") {
			return fmt.Sprintf("topic %q after the history: ByPattern yields %q, reference %q", tp, ga, want), nt
		}
		if strings.Join(gb, "\x00") != strings.Join(want, "\x00") {
			return fmt.Sprintf("topic %q on the directly built state: ByPattern yields %q, reference %q", tp, gb, want), nt
		}
	}
	return "", nt
}

func init() {
	kinds["sub-history"] = func(t ev.TB, raw json.RawMessage) {
		var c HistCase
		ev.Decode(t, raw, &c)
		m, nt := runHist(c)
		ev.Case(nt, c, "replay")
		if m != "" {
			ev.Fail(t, "sub-history", c, "%s", m)
		}
	}
}

// TestHistories: subscribe / unsubscribe / re-subscribe histories over 4 sessions × a
// drawn pool of 6 filters; matching must depend on the final active set only.
func TestHistories(t *testing.T) {
	rapid.Check(t, func(t *rapid.T) {
		c := HistCase{}
		seen := map[string]bool{}
		for len(c.Pool) < 6 {
			f := genFilter(t, false)
			if !seen[f] {
				seen[f] = true
				c.Pool = append(c.Pool, f)
			}
		}
		n := rapid.IntRange(1, 30).Draw(t, "n")
		for i := 0; i < n; i++ {
			op := HOp{Sess: rapid.IntRange(0, 3).Draw(t, "sess"), Filter: rapid.IntRange(0, 5).Draw(t, "filter"), QoS: int32(rapid.IntRange(0, 2).Draw(t, "qos"))}
			switch x := rapid.IntRange(0, 11).Draw(t, "op"); {
			case x >= 10:
				op = HOp{Op: "look"}
			case x < 6:
				op.Op = "sub"
			case x < 9:
				op.Op = "unsub"
			default:
				op.Op = "unsuball"
			}
			c.Ops = append(c.Ops, op)
		}
		c.Shuffle = rapid.SliceOfN(rapid.IntRange(0, 23), 0, 24).Draw(t, "shuffle")
		m, nt := runHist(c)
		ev.Case(nt, c, "history")
		if m != "" {
			ev.Fail(t, "sub-history", c, "%s", m)
		}
	})
}

// TestWide: wide levels. A level of the filter tree with tens or hundreds of distinct children
// (device ids) next to a '+' and a literal child that both lead on to a match; the siblings
// are active subscriptions or subscriptions that were removed again. The answer for a topic
// must still be the union of the single answers.
func TestWide(t *testing.T) {
	core := []string{"w/+/t", "w/7/t", "w/+/+", "w/7/#", "w/#", "+/7/t", "w/+", "w/7", "w/7/+", "w/+/#", "#", "+/+/t"}
	rapid.Check(t, func(t *rapid.T) {
		c := SetCase{Via: rapid.SampledFrom([]string{"tree", "state", "state"}).Draw(t, "via")}
		n := rapid.IntRange(2, 6).Draw(t, "ncore")
		seen := map[string]bool{}
		for i := 0; i < n; i++ {
			f := rapid.SampledFrom(core).Draw(t, "core")
			if !seen[f] {
				seen[f] = true
				c.Filters = append(c.Filters, f)
			}
		}
		width := rapid.SampledFrom([]int{8, 31, 32, 33, 40, 64, 65, 100, 300, 1100}).Draw(t, "width")
		removed := c.Via == "state" && rapid.Bool().Draw(t, "siblingsRemoved")
		shape := rapid.SampledFrom([]string{"w/s%d/x", "w/s%d", "w/s%d/t", "s%d/7/t"}).Draw(t, "shape")
		for i := 0; i < width; i++ {
			f := fmt.Sprintf(shape, i)
			if removed {
				c.Removed = append(c.Removed, f)
			} else {
				c.Filters = append(c.Filters, f)
			}
		}
		c.Topics = []string{"w/7/t", "w/7", "w/7/t/u", "w/s3/x", "w/s3/t", "w/s3", "w/8/t", fmt.Sprintf("w/s%d/x", width-1), "x/7/t", "s3/7/t", "w", "w/7/x"}
		m, _ := runSet(c)
		ev.CaseKey(width > 32, fmt.Sprint(c.Via, c.Filters[:min(len(c.Filters), 8)], width, removed, shape), func() interface{} { return c }, "wide", "via:"+c.Via)
		if m != "" {
			ev.Fail(t, "filter-set", c, "%s", m)
		}
	})
}

func min(a, b int) int {
	if a < b {
		return a
	}
	return b
}
