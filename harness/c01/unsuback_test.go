package c01

// The moment a client holds the UNSUBACK its subscription is gone: a publish that another client
// sends at that very moment, and that the broker acknowledges, must not reach it - while a second
// session still subscribed to the same filter must receive it. (And the reverse at the moment of
// the SUBACK is run `suback` of C02.) The fake connection hands every chunk written to the
// leaving subscriber to a hook before the broker's write returns.

import (
	"encoding/json"
	"fmt"
	"testing"
	"time"

	"pgregory.net/rapid"
	"verifharness/internal/ev"
	"verifharness/internal/ref"
	"verifharness/internal/sim"
)

type UnsubAckCase struct {
	Filters []string `json:"filters"` // subscribed by both sessions
	Leave   []int    `json:"leave"`   // indices unsubscribed by the leaving session in one UNSUBSCRIBE
	Topic   string   `json:"topic"`
	QoS     int      `json:"qos"`
}

type ufailure struct {
	msg          string
	inconclusive bool
}

func matchesAny(filters []string, topic string) bool {
	for _, f := range filters {
		if ref.MatchS(f, topic) {
			return true
		}
	}
	return false
}

func runUnsubAck(c UnsubAckCase) *ufailure {
	cl, err := sim.NewCluster()
	if err != nil {
		return &ufailure{err.Error(), true}
	}
	defer cl.Close()
	n, err := cl.AddNode(sim.NodeOpts{})
	if err != nil {
		return &ufailure{err.Error(), true}
	}
	mk := func(name string) *sim.Client {
		k := cl.NewClient(name)
		k.AttachTo(n)
		k.Send(sim.EncConnect(sim.ConnectOpts{ClientID: name, KeepAlive: 6000}))
		return k
	}
	leaver, stayer, pub := mk("leaver"), mk("stayer"), mk("pub")
	qos := make([]byte, len(c.Filters))
	for i := range qos {
		qos[i] = byte(i % 3)
	}
	leaver.Send(sim.EncSubscribe(1, c.Filters, qos))
	stayer.Send(sim.EncSubscribe(1, c.Filters, qos))
	if err := cl.Settle(); err != nil {
		return &ufailure{err.Error(), true}
	}
	var gone, kept []string
	isGone := map[int]bool{}
	for _, i := range c.Leave {
		isGone[i] = true
	}
	for i, f := range c.Filters {
		if isGone[i] {
			gone = append(gone, f)
		} else {
			kept = append(kept, f)
		}
	}
	ackType := byte(sim.PUBACK)
	if c.QoS == 2 {
		ackType = sim.PUBCOMP
	}
	done := make(chan bool, 1)
	leaver.Conn.WhenWritten([]byte{0xB0, 0x02, 0x00, 0x09}, func() {
		pub.Send(sim.EncPublish(c.Topic, []byte("after-unsuback"), byte(c.QoS), false, false, 5))
		ok := false
		for until := time.Now().Add(10 * time.Second); time.Now().Before(until); time.Sleep(200 * time.Microsecond) {
			pub.Pump()
			if pub.Has(ackType, 5) {
				ok = true
				break
			}
		}
		// ... and let the broker deliver it (to the session that stays) before the UNSUBACK write
		// returns: recipients are resolved when the message is written, not when it is accepted
		if ok && matchesAny(c.Filters, c.Topic) {
			for until := time.Now().Add(3 * time.Second); time.Now().Before(until); time.Sleep(200 * time.Microsecond) {
				stayer.Pump()
				got := false
				for _, p := range stayer.Publishes() {
					if p.Payload == "after-unsuback" {
						got = true
					}
				}
				if got {
					break
				}
			}
		}
		done <- ok
	})
	leaver.Send(sim.EncUnsubscribe(9, gone))
	select {
	case ok := <-done:
		if !ok {
			return &ufailure{"the publish sent when the UNSUBACK arrived was not acknowledged within 10 s", true}
		}
	case <-time.After(30 * time.Second):
		return &ufailure{"no UNSUBACK seen within 30 s", true}
	}
	if err := cl.Settle(); err != nil {
		return &ufailure{err.Error(), true}
	}
	count := func(k *sim.Client) int {
		n := 0
		for _, p := range k.Publishes() {
			if p.Payload == "after-unsuback" {
				n++
			}
		}
		return n
	}
	wantLeaver := matchesAny(kept, c.Topic)
	wantStayer := matchesAny(c.Filters, c.Topic)
	if got := count(leaver); (got > 0) != wantLeaver {
		return &ufailure{fmt.Sprintf("the session that held the UNSUBACK for %q (still subscribed to %q) when %q was published and acknowledged received it %d time(s); it matches a remaining filter: %v", gone, kept, c.Topic, got, wantLeaver), false}
	}
	if got := count(stayer); (got > 0) != wantStayer {
		return &ufailure{fmt.Sprintf("the session still subscribed to %q received the publish on %q %d time(s); matching: %v", c.Filters, c.Topic, got, wantStayer), false}
	}
	return nil
}

func checkUnsubAck(t ev.TB, c UnsubAckCase) {
	ev.WriteCurrent("publish-at-unsuback", c)
	f := runUnsubAck(c)
	if f != nil && !f.inconclusive {
		if f2 := runUnsubAck(c); f2 == nil || f2.inconclusive {
			ev.Count("unconfirmed_failures", 1)
			f = nil
		}
	}
	ev.Case(matchesAny(c.Filters, c.Topic), c, "publish-at-unsuback")
	if f != nil && f.inconclusive {
		ev.Inconclusive(t, f.msg)
		return
	}
	if f != nil {
		ev.Fail(t, "publish-at-unsuback", c, "%s", f.msg)
	}
}

func init() {
	kinds["publish-at-unsuback"] = func(t ev.TB, raw json.RawMessage) {
		var c UnsubAckCase
		ev.Decode(t, raw, &c)
		checkUnsubAck(t, c)
	}
}

func TestPublishAtUnsubAck(t *testing.T) {
	pool := []string{"a/b", "a/+", "a/#", "#", "+/b", "a/b/c", "a", "+/+"}
	rapid.Check(t, func(t *rapid.T) {
		n := rapid.IntRange(1, 4).Draw(t, "filters")
		c := UnsubAckCase{QoS: rapid.IntRange(1, 2).Draw(t, "qos"), Topic: rapid.SampledFrom([]string{"a/b", "a/b", "a", "a/b/c", "x/b"}).Draw(t, "topic")}
		seen := map[string]bool{}
		for len(c.Filters) < n {
			f := rapid.SampledFrom(pool).Draw(t, "filter")
			if !seen[f] {
				seen[f] = true
				c.Filters = append(c.Filters, f)
			}
		}
		for i := range c.Filters {
			if rapid.Bool().Draw(t, "leave") {
				c.Leave = append(c.Leave, i)
			}
		}
		if len(c.Leave) == 0 {
			c.Leave = []int{rapid.IntRange(0, n-1).Draw(t, "leaveOne")}
		}
		checkUnsubAck(t, c)
	})
}
