package c01

import (
	"encoding/json"
	"fmt"
	"testing"

	"pgregory.net/rapid"
	"verifharness/internal/ev"
	"verifharness/internal/ref"
	"verifharness/internal/sim"
)

// E2E: the third observation point of C01 — PUBLISH packets read from the client side of
// the connections of a running broker. The expected multiset comes from the reference
// matcher: one copy per active matching subscription, nothing else, topic and payload intact.
type E2E struct {
	Nodes   int        `json:"nodes"`
	Clients int        `json:"clients"`
	Steps   []sim.Step `json:"steps"`
}

type failure struct {
	msg          string
	inconclusive bool
}

func runE2E(c E2E) (f *failure, nt bool) {
	w, err := sim.NewWorld(c.Nodes, c.Clients)
	if err != nil {
		return &failure{err.Error(), true}, false
	}
	defer w.Close()
	unsub := false
	for i, st := range c.Steps {
		if st.Op == "unsub" || st.Op == "rpcunsub" {
			unsub = true
		}
		if st.Op == "pub" && unsub {
			nt = true
		}
		if st.Op == "pub" {
			for _, s := range w.S {
				hits := 0
				for f := range s.Subs {
					if ref.MatchS(f, st.Topic) {
						hits++
					}
				}
				if hits >= 2 {
					nt = true // overlapping filters on one session
				}
			}
		}
		problem, inconclusive := w.Apply(st)
		if inconclusive {
			return &failure{problem, true}, nt
		}
		if problem != "" {
			return &failure{fmt.Sprintf("step %d (%s c%d): %s", i, st.Op, st.C, problem), false}, nt
		}
		if m := w.CheckDeliveries(); m != "" {
			return &failure{fmt.Sprintf("after step %d (%s c%d %v%s): %s", i, st.Op, st.C, st.Filters, st.Topic, m), false}, nt
		}
	}
	return nil, nt
}

func checkE2E(t ev.TB, c E2E, labels ...string) {
	ev.WriteCurrent("match-e2e", c)
	f, nt := runE2E(c)
	if f != nil && !f.inconclusive {
		again := 0
		for i := 0; i < 2 && again == 0; i++ {
			if f2, _ := runE2E(c); f2 != nil && !f2.inconclusive {
				again++
			}
		}
		if again == 0 {
			ev.Count("unconfirmed_failures", 1)
			f = nil
		}
	}
	ev.Case(nt, c, append(labels, "e2e")...)
	if f != nil && f.inconclusive {
		ev.Inconclusive(t, f.msg)
		return
	}
	if f != nil {
		ev.Fail(t, "match-e2e", c, "%s", f.msg)
	}
}

func init() {
	kinds["match-e2e"] = func(t ev.TB, raw json.RawMessage) {
		var c E2E
		ev.Decode(t, raw, &c)
		checkE2E(t, c, "replay")
	}
}

var e2eTopics = []string{"a", "a/b", "a/b/c", "b", "a/", "/a", "a//b", "c", "b/a"}
var e2eFilters = []string{"#", "a/#", "a/+", "+", "a", "a/b", "+/b", "+/+", "a/+/c", "/#", "a//+", "b/#", "+/a", "a/b/#"}

func TestE2E(t *testing.T) {
	rapid.Check(t, func(t *rapid.T) {
		c := E2E{Nodes: 1, Clients: rapid.IntRange(2, 4).Draw(t, "clients")}
		if rapid.IntRange(0, 3).Draw(t, "twoNodes") == 0 {
			c.Nodes = 2
		}
		connected := map[int]bool{}
		payload := 0
		n := rapid.IntRange(5, 24).Draw(t, "steps")
		for i := 0; i < n; i++ {
			ci := rapid.IntRange(0, c.Clients-1).Draw(t, "client")
			if !connected[ci] {
				connected[ci] = true
				c.Steps = append(c.Steps, sim.Step{Op: "connect", C: ci, Node: rapid.IntRange(0, c.Nodes-1).Draw(t, "node"), ClientID: fmt.Sprintf("c%d", ci), KeepAlive: 6000})
				continue
			}
			switch x := rapid.IntRange(0, 12).Draw(t, "op"); {
			case x == 12:
				// an operator removes one of the session's subscriptions behind its back (waspctl);
				// the session often asks for the same filter again afterwards
				f := rapid.SampledFrom(e2eFilters).Draw(t, "filter")
				held := -1
				for _, st := range c.Steps {
					if st.C != ci {
						continue
					}
					for k, g := range st.Filters {
						if st.Op == "sub" && g == f {
							held = st.QoS[k]
						}
					}
				}
				if held < 0 {
					held = rapid.IntRange(0, 2).Draw(t, "qos")
					c.Steps = append(c.Steps, sim.Step{Op: "sub", C: ci, Filters: []string{f}, QoS: []int{held}})
				}
				c.Steps = append(c.Steps, sim.Step{Op: "rpcunsub", C: ci, Node: rapid.IntRange(0, c.Nodes-1).Draw(t, "rpcnode"), Filters: []string{f}})
				if rapid.IntRange(0, 3).Draw(t, "again") > 0 {
					q := held
					if rapid.IntRange(0, 3).Draw(t, "otherqos") == 0 {
						q = rapid.IntRange(0, 2).Draw(t, "qos2")
					}
					c.Steps = append(c.Steps, sim.Step{Op: "sub", C: ci, Filters: []string{f}, QoS: []int{q}})
				}
				payload++
				c.Steps = append(c.Steps, sim.Step{Op: "pub", C: rapid.IntRange(0, c.Clients-1).Draw(t, "publisher"), Topic: rapid.SampledFrom(e2eTopics).Draw(t, "topic"), Payload: fmt.Sprintf("p%d", payload), PQoS: byte(rapid.IntRange(0, 1).Draw(t, "pqos"))})
			case x < 5:
				nf := rapid.IntRange(1, 3).Draw(t, "nfilters")
				st := sim.Step{Op: "sub", C: ci}
				seen := map[string]bool{}
				for j := 0; j < nf; j++ {
					f := rapid.SampledFrom(e2eFilters).Draw(t, "filter")
					if !seen[f] {
						seen[f] = true
						st.Filters = append(st.Filters, f)
						st.QoS = append(st.QoS, rapid.IntRange(0, 2).Draw(t, "qos"))
					}
				}
				c.Steps = append(c.Steps, st)
			case x < 7:
				c.Steps = append(c.Steps, sim.Step{Op: "unsub", C: ci, Filters: []string{rapid.SampledFrom(e2eFilters).Draw(t, "filter")}})
			case x < 8 && rapid.IntRange(0, 3).Draw(t, "stalled") == 0:
				// another client (short keep-alive, connected for this purpose) has stopped reading:
				// the write to it times out, the other matching sessions still get the message
				vi := c.Clients
				c.Clients++
				node := 0
				for _, st := range c.Steps {
					if st.Op == "connect" && st.C == ci {
						node = st.Node
					}
				}
				payload++
				c.Steps = append(c.Steps, sim.Step{Op: "connect", C: vi, Node: node, ClientID: fmt.Sprintf("victim%d", vi), KeepAlive: 2},
					sim.Step{Op: "sub", C: vi, Filters: []string{rapid.SampledFrom([]string{"#", "a/#", "+/+"}).Draw(t, "victimFilter")}, QoS: []int{0}},
					sim.Step{Op: "stallpub", C: ci, Victim: vi, Topic: rapid.SampledFrom(e2eTopics).Draw(t, "topic"), Payload: fmt.Sprintf("p%d", payload)})
			default:
				payload++
				c.Steps = append(c.Steps, sim.Step{Op: "pub", C: ci, Topic: rapid.SampledFrom(e2eTopics).Draw(t, "topic"), Payload: fmt.Sprintf("p%d", payload), PQoS: byte(rapid.IntRange(0, 1).Draw(t, "pqos"))})
			}
		}
		checkE2E(t, c)
	})
}
