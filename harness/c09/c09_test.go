// C09 — every local state change is carried completely by the broadcasts it queues.
//
// Node A (under test) and a mirror B start equal. After EACH operation on A the
// broadcasts queued by that operation are delivered to B; A, B and an independent
// map model of the operation semantics must then list the same state.
package c09

import (
	"encoding/json"
	"fmt"
	"testing"

	"pgregory.net/rapid"
	"verifharness/internal/dst"
	"verifharness/internal/ev"
)

func TestMain(m *testing.M) { ev.Main(m, "C09") }

type Case struct {
	PeerPre []dst.Op `json:"peer_pre"` // performed on peer P (id 2) first; its gossip reaches A and B
	Ops     []dst.Op `json:"ops"`      // performed on A (id 1)
	// DrainEvery: A's transmit queue is drained (and handed to B in the order the queue gives
	// the broadcasts out — not FIFO) after every k-th operation and at the end; 0/1 = after every
	// operation. A and B are compared at the drain points.
	DrainEvery int `json:"drain_every,omitempty"`
	// ClockBase: first stamp of the virtual clock (0 = 1e6; realistic UnixNano values lie beyond 2^53)
	ClockBase int64 `json:"clock_base,omitempty"`
	// MirrorClock: what B's wall clock shows relative to A's while B receives (nanoseconds;
	// negative = B's clock is behind). Stamps are the origin's business: what a receiver lists
	// must not depend on its own clock
	MirrorClock int64 `json:"mirror_clock,omitempty"`
}

func run(c Case) (msg string, nontrivial bool) {
	defer func() {
		if r := recover(); r != nil {
			msg = fmt.Sprintf("panic: %v", r)
		}
	}()
	defer dst.InstallClock()()
	a, p, b := dst.NewNode(1), dst.NewNode(2), dst.NewNode(3)
	sem := dst.NewSem()
	clock := int64(1_000_000)
	if c.ClockBase != 0 {
		clock = c.ClockBase
	}
	for _, op := range c.PeerPre {
		clock += 10
		dst.SetNow(clock)
		dst.Apply(p, op)
		sem.Apply(2, op)
		for _, m := range p.Drain() {
			a.Deliver(m)
			b.Deliver(m)
		}
	}
	if d := dst.Diff("A", dst.ViewOf(a), "model", sem.View()); d != "" {
		return "after the peer's gossip: " + d, false
	}
	for i, op := range c.Ops {
		clock += 10
		dst.SetNow(clock)
		before := dst.ViewOf(a)
		dst.Apply(a, op)
		touched := sem.Apply(1, op)
		if len(touched) >= 2 {
			nontrivial = true
		}
		va0 := dst.ViewOf(a)
		if d := dst.Diff("A", va0, "model", sem.View()); d != "" {
			return fmt.Sprintf("step %d (%s): origin vs. operation semantics: %s", i, op.Op, d), nontrivial
		}
		if c.DrainEvery > 1 && (i+1)%c.DrainEvery != 0 && i != len(c.Ops)-1 {
			continue // broadcasts stay queued
		}
		msgs := a.Drain()
		named := map[string]bool{}
		for _, m := range msgs {
			es, err := dst.Decode(m)
			if err != nil {
				return fmt.Sprintf("step %d (%s): undecodable broadcast: %v", i, op.Op, err), nontrivial
			}
			for _, e := range es {
				named[e.Kind+":"+e.Key] = true
			}
			dst.SetNow(clock + c.MirrorClock)
			b.Deliver(m)
			dst.SetNow(clock)
		}
		if c.MirrorClock != 0 && len(msgs) > 0 {
			nontrivial = true
		}
		va, vb := dst.ViewOf(a), dst.ViewOf(b)
		if d := dst.Diff("A", va, "model", sem.View()); d != "" {
			return fmt.Sprintf("step %d (%s): origin vs. operation semantics: %s", i, op.Op, d), nontrivial
		}
		if d := dst.Diff("A (origin)", va, "B (received A's broadcasts)", vb); d != "" {
			what := ""
			if len(msgs) == 0 && dst.Diff("", before, "", va) != "" {
				what = " (the operation changed A but queued no broadcast)"
			}
			return fmt.Sprintf("step %d (%s)%s: %s", i, op.Op, what, d), nontrivial
		}
		if c.DrainEvery > 1 {
			continue // per-operation attribution of broadcasts only when every operation is drained
		}
		for _, k := range touched {
			if !named[k] {
				return fmt.Sprintf("step %d (%s): entry %s was changed but does not appear in the broadcast (broadcast names %d distinct entries for %d touched)", i, op.Op, k, len(named), len(touched)), nontrivial
			}
		}
	}
	return "", nontrivial
}

func check(t ev.TB, c Case, labels ...string) {
	msg, nt := run(c)
	for _, op := range c.Ops {
		labels = append(labels, "op:"+op.Op)
	}
	ev.Case(nt, c, labels...)
	if msg != "" {
		ev.Fail(t, "bcast-lockstep", c, "%s", msg)
	}
}

var kinds = ev.Kinds{"bcast-lockstep": func(t ev.TB, raw json.RawMessage) {
	var c Case
	ev.Decode(t, raw, &c)
	check(t, c, "replay")
}}

func TestReplayFile(t *testing.T) { ev.ReplayFile(t, kinds) }
func TestRegress(t *testing.T)    { ev.Regress(t, kinds, "testdata/regress") }

func TestRandom(t *testing.T) {
	rapid.Check(t, func(t *rapid.T) {
		c := Case{}
		np := rapid.IntRange(0, 8).Draw(t, "npeer")
		for i := 0; i < np; i++ {
			c.PeerPre = append(c.PeerPre, dst.GenOp(t, 4, 4, 4, []uint64{1, 2}, false))
		}
		n := rapid.IntRange(1, 30).Draw(t, "n")
		for i := 0; i < n; i++ {
			c.Ops = append(c.Ops, dst.GenOp(t, 4, 4, 4, []uint64{1, 2}, true))
		}
		c.DrainEvery = rapid.SampledFrom([]int{1, 1, 2, 3, 5, 1000}).Draw(t, "drainEvery")
		c.ClockBase = rapid.SampledFrom(dst.ClockBases).Draw(t, "clockBase")
		if c.ClockBase > 1e18 {
			const minute = int64(60e9)
			c.MirrorClock = rapid.SampledFrom([]int64{0, 0, 0, -4 * minute, -6 * minute, -120 * minute, 120 * minute, -30 * 24 * 60 * minute, 1500}).Draw(t, "mirrorClock")
		}
		check(t, c)
	})
}
