package c09

// Bulk removals of every size.
//
// A bulk change (a session's subscriptions removed at once, a failed peer's sessions and
// subscriptions removed at once) is broadcast as a whole, however many entries it touches. For
// every n from 1 to 130 (thorough 600): a session with n subscriptions ends (DeleteSession); a
// peer with n sessions, each with one or two subscriptions, fails (DeletePeer on sessions and on
// subscriptions). A mirror that receives exactly the broadcasts queued by those calls lists what
// the origin lists.

import (
	"encoding/json"
	"fmt"
	"testing"

	"verifharness/internal/dst"
	"verifharness/internal/ev"
)

type BulkCase struct {
	N    int    `json:"n"`
	Kind string `json:"kind"` // session | peer
}

func bulkRun(c BulkCase) string {
	restore := dst.InstallClock()
	defer restore()
	base := int64(1_700_000_000_000_000_000)
	o, m := dst.NewNode(1), dst.NewNode(2)
	sync := func() {
		for _, b := range o.Drain() {
			m.Deliver(b)
		}
	}
	dst.SetNow(base)
	// something that stays
	o.State.SessionMetadatas().Create("keep", "keep-client", 1000, nil, "mp")
	o.State.Subscriptions().Create("keep", []byte("mp/keep/#"), 1)
	switch c.Kind {
	case "session":
		o.State.SessionMetadatas().Create("bulk", "bulk-client", 1000, nil, "mp")
		for i := 0; i < c.N; i++ {
			dst.SetNow(base + int64(i+1)*10)
			o.State.Subscriptions().Create("bulk", []byte(fmt.Sprintf("mp/bulk/%d/+", i)), int32(i%3))
		}
		sync()
		dst.SetNow(base + 1_000_000)
		o.State.Subscriptions().DeleteSession("bulk")
		o.State.SessionMetadatas().Delete("bulk")
	case "peer":
		// entries owned by another peer (as learnt by gossip), removed when that peer fails
		other := dst.NewNode(7)
		for i := 0; i < c.N; i++ {
			dst.SetNow(base + int64(i+1)*10)
			sid := fmt.Sprintf("p7-%d", i)
			other.State.SessionMetadatas().Create(sid, "c-"+sid, 1000, nil, "mp")
			other.State.Subscriptions().Create(sid, []byte(fmt.Sprintf("mp/peer/%d/#", i)), 1)
			if i%2 == 0 {
				other.State.Subscriptions().Create(sid, []byte("mp/shared/+"), 0)
			}
		}
		for _, b := range other.Drain() {
			o.Deliver(b)
			m.Deliver(b)
		}
		sync()
		dst.SetNow(base + 1_000_000)
		o.State.Subscriptions().DeletePeer(7)
		o.State.SessionMetadatas().DeletePeer(7)
	}
	sync()
	if d := dst.Diff("origin", dst.ViewOf(o), "mirror that received every broadcast of the origin", dst.ViewOf(m)); d != "" {
		return fmt.Sprintf("bulk removal (%s) of %d entries: %s", c.Kind, c.N, d)
	}
	return ""
}

func init() {
	kinds["bulk-removal"] = func(t ev.TB, raw json.RawMessage) {
		var c BulkCase
		ev.Decode(t, raw, &c)
		if msg := bulkRun(c); msg != "" {
			ev.Fail(t, "bulk-removal", c, "%s", msg)
		}
	}
}

func TestBulkSizes(t *testing.T) {
	max := ev.Scale(130, 600)
	for n := 1; n <= max; n++ {
		for _, kind := range []string{"session", "peer"} {
			c := BulkCase{n, kind}
			msg := bulkRun(c)
			ev.Case(n >= 2, c, "bulk-removal", "kind:"+kind)
			if msg != "" {
				ev.Fail(t, "bulk-removal", c, "%s", msg)
				return
			}
		}
	}
	ev.Exhaustive(fmt.Sprintf("bulk removals of every size 1..%d: a session's subscriptions (DeleteSession), a failed peer's sessions and subscriptions (DeletePeer)", max))
}
