package c09

// Every *distinct* broadcast has to be merged, however much it resembles one merged before.
//
// A receiver that recognises "messages it has seen" by anything shorter than the message itself
// drops a change for good as soon as two different broadcasts agree on that fingerprint. Random
// histories meet such a pair with probability ~1e-7 per message; here the pairs are searched for:
// a real origin performs 200 000 (thorough: 1 500 000) different changes under the harness clock,
// the real broadcasts are drained, and for a family of 32-bit fingerprints (CRC-32 with three
// polynomials, FNV-1/1a 32, Adler-32, folded and truncated FNV-64a, truncated MD5 / SHA-1 /
// SHA-256, length + edge bytes) the colliding pairs are found by a birthday search. Each pair is
// then delivered to a fresh receiver - adjacent, in both orders, with an exact duplicate of the
// first in between, and once more behind a few hundred unrelated messages - and the receiver must
// list what the reference last-writer-wins table built from the decoded messages lists.

import (
	"crypto/md5"
	"crypto/sha1"
	"crypto/sha256"
	"encoding/binary"
	"encoding/json"
	"fmt"
	"hash/adler32"
	"hash/crc32"
	"hash/fnv"
	"os"
	"sort"
	"strconv"
	"testing"

	"github.com/vx-labs/mqtt-protocol/packet"
	"verifharness/internal/dst"
	"verifharness/internal/ev"
)

type FPCase struct {
	Seed    int64  `json:"seed"`
	N       int    `json:"n"`
	Digest  string `json:"digest"`
	I       int    `json:"i"`
	J       int    `json:"j"`
	Variant string `json:"variant"` // ij | ji | idupj | far
}

var fpDigests = []struct {
	name string
	f    func([]byte) uint32
}{
	{"crc32-ieee", crc32.ChecksumIEEE},
	{"crc32-castagnoli", func(b []byte) uint32 { return crc32.Checksum(b, crc32.MakeTable(crc32.Castagnoli)) }},
	{"crc32-koopman", func(b []byte) uint32 { return crc32.Checksum(b, crc32.MakeTable(crc32.Koopman)) }},
	{"fnv32", func(b []byte) uint32 { h := fnv.New32(); h.Write(b); return h.Sum32() }},
	{"fnv32a", func(b []byte) uint32 { h := fnv.New32a(); h.Write(b); return h.Sum32() }},
	{"adler32", adler32.Checksum},
	{"fnv64a-fold", func(b []byte) uint32 { h := fnv.New64a(); h.Write(b); v := h.Sum64(); return uint32(v) ^ uint32(v>>32) }},
	{"fnv64a-low", func(b []byte) uint32 { h := fnv.New64a(); h.Write(b); return uint32(h.Sum64()) }},
	{"md5-4", func(b []byte) uint32 { s := md5.Sum(b); return binary.BigEndian.Uint32(s[:4]) }},
	{"sha1-4", func(b []byte) uint32 { s := sha1.Sum(b); return binary.BigEndian.Uint32(s[:4]) }},
	{"sha256-4", func(b []byte) uint32 { s := sha256.Sum256(b); return binary.BigEndian.Uint32(s[:4]) }},
	{"len-edges", func(b []byte) uint32 {
		if len(b) < 4 {
			return uint32(len(b))
		}
		return uint32(len(b))<<24 ^ uint32(b[len(b)-1])<<16 ^ uint32(b[len(b)-2])<<8 ^ uint32(b[len(b)-3])
	}},
}

// fpMessages performs n different changes on a real origin and returns their broadcasts, one per
// change, deterministically from seed: retained sets on many topics with short varying payloads,
// retained clears, session announcements and removals, subscriptions and their removals.
func fpMessages(seed int64, n int) [][]byte {
	origin := dst.NewNode(1)
	base := int64(1_700_000_000_000_000_000) + (seed%1000)*1_000_003
	msgs := make([][]byte, 0, n)
	x := uint64(seed)*0x9E3779B97F4A7C15 + 1
	next := func() uint64 { x ^= x << 13; x ^= x >> 7; x ^= x << 17; return x }
	for i := 0; len(msgs) < n; i++ {
		dst.SetNow(base + int64(i)*8 + int64(next()%8))
		r := next()
		k := int(r>>8) % 4096
		var err error
		switch r % 8 {
		case 0, 1, 2:
			err = origin.State.Topics().Set(&packet.Publish{Header: &packet.Header{Retain: true, Qos: int32(r>>40) % 3}, Topic: []byte(fmt.Sprintf("mp/f/%d", k)), Payload: []byte(strconv.FormatUint(next()%100000, 36))})
		case 3:
			err = origin.State.Topics().Delete([]byte(fmt.Sprintf("mp/f/%d", k)))
		case 4:
			err = origin.State.SessionMetadatas().Create(fmt.Sprintf("fs-%d", i), fmt.Sprintf("fc-%d", k), 1000+int64(k), nil, "mp")
		case 5:
			err = origin.State.Subscriptions().Create(fmt.Sprintf("fs-%d", k), []byte(fmt.Sprintf("mp/g/%d/+", next()%8192)), int32(r>>40)%3)
		case 6:
			err = origin.State.Subscriptions().Delete(fmt.Sprintf("fs-%d", k), []byte(fmt.Sprintf("mp/g/%d/+", next()%8192)))
		case 7:
			if i > 10 {
				err = origin.State.SessionMetadatas().Delete(fmt.Sprintf("fs-%d", i-1-int(next()%8)))
			}
		}
		_ = err
		for _, m := range origin.Drain() {
			if len(msgs) < n {
				msgs = append(msgs, m)
			}
		}
	}
	return msgs
}

func fpRun(c FPCase, msgs [][]byte) string {
	if c.I >= len(msgs) || c.J >= len(msgs) {
		return ""
	}
	a, b := msgs[c.I], msgs[c.J]
	var seq [][]byte
	switch c.Variant {
	case "ij":
		seq = [][]byte{a, b}
	case "ji":
		seq = [][]byte{b, a}
	case "idupj":
		seq = [][]byte{a, a, b, b}
	case "far":
		seq = append(seq, a)
		for k := 1; k <= 300 && c.I+k < len(msgs); k++ {
			if c.I+k != c.J {
				seq = append(seq, msgs[c.I+k])
			}
		}
		seq = append(seq, b)
	}
	r := dst.NewNode(2)
	table := dst.NewTable()
	for _, m := range seq {
		es, err := dst.Decode(m)
		if err != nil {
			return "a broadcast of the origin does not decode: " + err.Error()
		}
		for _, e := range es {
			table.Apply(e)
		}
		r.Deliver(m)
	}
	if table.Ambiguous {
		return ""
	}
	if d := dst.Diff("receiver", dst.ViewOf(r), "reference table of the delivered broadcasts", table.View()); d != "" {
		return fmt.Sprintf("two different broadcasts (#%d, #%d; equal under %s) delivered as %q: %s", c.I, c.J, c.Digest, c.Variant, d)
	}
	return ""
}

var fpCache = map[string][][]byte{}

func fpCheck(t ev.TB, c FPCase) {
	key := fmt.Sprint(c.Seed, "/", c.N)
	msgs, ok := fpCache[key]
	if !ok {
		restore := dst.InstallClock()
		msgs = fpMessages(c.Seed, c.N)
		restore()
		fpCache = map[string][][]byte{key: msgs}
	}
	restore := dst.InstallClock()
	defer restore()
	msg := fpRun(c, msgs)
	ev.CaseKey(true, fmt.Sprint(c), func() interface{} { return c }, "digest:"+c.Digest, "variant:"+c.Variant)
	if msg != "" {
		ev.Fail(t, "fingerprint", c, "%s", msg)
	}
}

func init() {
	kinds["fingerprint"] = func(t ev.TB, raw json.RawMessage) {
		var c FPCase
		ev.Decode(t, raw, &c)
		fpCheck(t, c)
	}
}

func TestFingerprints(t *testing.T) {
	seed, _ := strconv.ParseInt(os.Getenv("VERIF_SEED"), 10, 64)
	if seed == 0 {
		seed = 1
	}
	n := 200_000
	if os.Getenv("VERIF_TIER") == "thorough" {
		n = 1_500_000
	}
	restore := dst.InstallClock()
	msgs := fpMessages(seed, n)
	restore()
	fpCache = map[string][][]byte{fmt.Sprint(seed, "/", n): msgs}
	// all messages are different
	distinct := map[string]int{}
	for i, m := range msgs {
		if j, dup := distinct[string(m)]; dup {
			t.Fatalf("harness: broadcasts %d and %d are identical", j, i)
		}
		distinct[string(m)] = i
	}
	distinct = nil
	pairs := 0
	for _, d := range fpDigests {
		seen := make(map[uint32]int32, len(msgs))
		type pr struct{ i, j int }
		var found []pr
		for j, m := range msgs {
			h := d.f(m)
			if i, ok := seen[h]; ok {
				found = append(found, pr{int(i), j})
			} else {
				seen[h] = int32(j)
			}
		}
		sort.Slice(found, func(a, b int) bool { return found[a].j-found[a].i < found[b].j-found[b].i })
		max := 6
		if os.Getenv("VERIF_TIER") == "thorough" {
			max = 60
		}
		if len(found) > max {
			found = found[:max]
		}
		ev.Count("fingerprint_pairs_"+d.name, int64(len(found)))
		for _, p := range found {
			pairs++
			for _, v := range []string{"ij", "ji", "idupj", "far"} {
				fpCheck(t, FPCase{Seed: seed, N: n, Digest: d.name, I: p.i, J: p.j, Variant: v})
			}
		}
	}
	if pairs == 0 {
		t.Fatalf("harness: no colliding pair found among %d broadcasts", len(msgs))
	}
	t.Logf("%d broadcasts, %d colliding pairs delivered", len(msgs), pairs)
}
