// C05 — inbound publishes: stored before acknowledged; QoS 2 forwarded exactly once.
//
// 1–3 in-process nodes host subscribers; a client on node 0 sends generated sequences of
// PUBLISH (QoS 0/1/2, fresh or repeated identifier, DUP or not), PUBREL and handshake
// timeouts; every write-producing step carries a fault plan (which destination writes fail,
// and how: peer unreachable, remote log refuses, local log refuses). The oracle reads the
// recording log wrappers of all nodes and the packets written back to the client.
package c05

import (
	"encoding/json"
	"fmt"
	"os"
	"sort"
	"testing"
	"time"

	"pgregory.net/rapid"
	"verifharness/internal/ev"
	"verifharness/internal/ref"
	"verifharness/internal/sim"
)

func TestMain(m *testing.M) {
	if os.Getenv("C05_CHILD") != "" {
		panicChild()
		os.Exit(0)
	}
	ev.Main(m, "C05")
}

type Step struct {
	Op    string `json:"op"` // pub | pubrel | sweep | sub (a subscriber for filter Topic appears on node Node)
	Node  int    `json:"node,omitempty"`
	C     int    `json:"c"`
	QoS   int    `json:"qos,omitempty"`
	ID    uint16 `json:"id,omitempty"`
	Dup   bool   `json:"dup,omitempty"`
	Topic string `json:"topic,omitempty"`
	// Retain / Empty: the RETAIN flag and a zero-length payload (together: "forget the retained
	// message" — which is still a message for the subscribers and still has to be stored)
	Retain bool `json:"retain,omitempty"`
	Empty  bool `json:"empty,omitempty"`
	// fault plan for the writes this step causes
	FailNodes []int  `json:"fail_nodes,omitempty"` // node indices whose write fails
	HangMs    int    `json:"hang_ms,omitempty"`    // mode hang: the remote log stalls for so long (real time) and then refuses
	Mode      string `json:"mode,omitempty"`       // hang | transport | rpc (remote log refuses) | lostreply (remote stores, reply lost); the local node always fails as "local log refuses"
}

type Case struct {
	// IDs: when present, packet identifier k (1..len) of the steps stands for IDs[k-1]: the same
	// histories on identifiers at the edges of the 16-bit range and of narrower encodings
	IDs     []uint16 `json:"ids,omitempty"`
	Nodes   int      `json:"nodes"`
	Subs    []SubAt  `json:"subs"`
	Clients int      `json:"clients"`
	Steps   []Step   `json:"steps"`
}

type SubAt struct {
	Node   int    `json:"node"`
	Filter string `json:"filter"`
}

type failure struct {
	msg          string
	inconclusive bool
}

type pend struct {
	payload string
	topic   string
}

// emptyMark: appends of zero-length payloads cannot be told apart by content; they are
// attributed to the step during which they happen (steps are sequential and settled)
type marks []int

func run(c Case) (f *failure, nontrivial bool) {
	cl, err := sim.NewCluster()
	if err != nil {
		return &failure{err.Error(), true}, false
	}
	defer cl.Close()
	for i := 0; i < c.Nodes; i++ {
		if _, err := cl.AddNode(sim.NodeOpts{}); err != nil {
			return &failure{err.Error(), true}, false
		}
	}
	settle := func() *failure {
		if err := cl.Settle(); err != nil {
			return &failure{err.Error(), true}
		}
		return nil
	}
	for i, s := range c.Subs {
		k := cl.NewClient(fmt.Sprintf("sub%d", i))
		k.AttachTo(cl.Nodes[s.Node])
		k.Send(sim.EncConnect(sim.ConnectOpts{ClientID: k.Name, KeepAlive: 6000}))
		k.Send(sim.EncSubscribe(1, []string{s.Filter}, []byte{0}))
	}
	var pubs []*sim.Client
	for i := 0; i < c.Clients; i++ {
		k := cl.NewClient(fmt.Sprintf("pub%d", i))
		k.AutoAck = false // the script decides when PUBREL is sent
		k.AttachTo(cl.Nodes[0])
		k.Send(sim.EncConnect(sim.ConnectOpts{ClientID: k.Name, KeepAlive: 6000}))
		pubs = append(pubs, k)
	}
	if f := settle(); f != nil {
		return f, false
	}
	dead := make([]bool, c.Clients)
	pending := make([]map[uint16]pend, c.Clients)
	for i := range pending {
		pending[i] = map[uint16]pend{}
	}
	subsNow := append([]SubAt{}, c.Subs...)
	dests := func(topic string) map[int]bool {
		D := map[int]bool{}
		for _, s := range subsNow {
			if ref.MatchS(s.Filter, topic) {
				D[s.Node] = true
			}
		}
		return D
	}
	var mark marks
	setMark := func() {
		mark = mark[:0]
		for _, n := range cl.Nodes {
			mark = append(mark, len(n.Log.Appends()))
		}
	}
	appendsOf := func(payload string) (ok, failed map[int]int) {
		ok, failed = map[int]int{}, map[int]int{}
		for ni, n := range cl.Nodes {
			for ai, a := range n.Log.Appends() {
				if payload == "" && ai < mark[ni] {
					continue
				}
				if a.Payload == payload {
					if a.Err {
						failed[ni]++
					} else {
						ok[ni]++
					}
				}
			}
		}
		return
	}
	count := func(k *sim.Client, typ byte, id uint16) int {
		n := 0
		for _, p := range k.Rx {
			if p.Type == typ && p.ID == id {
				n++
			}
		}
		return n
	}
	for si, st := range c.Steps {
		if st.Op == "sub" {
			// a subscriber appears (on a node that may have hosted none so far) between two publishes;
			// the next publish follows at once
			if st.Node >= c.Nodes {
				continue
			}
			k := cl.NewClient(fmt.Sprintf("latesub%d", si))
			k.AttachTo(cl.Nodes[st.Node])
			k.Send(sim.EncConnect(sim.ConnectOpts{ClientID: k.Name, KeepAlive: 6000}))
			if f := settle(); f != nil {
				return f, nontrivial
			}
			// every topic has just been published on (QoS 0, not judged) when the subscription
			// appears, and the next step follows one settle later: whatever the broker remembers
			// about a topic from its last publish is as fresh as it gets
			if len(pubs) > 0 && !dead[0] {
				for ti, tp := range topics {
					pubs[0].Send(sim.EncPublish(tp, []byte(fmt.Sprintf("warm-%d-%d", si, ti)), 0, false, false, 0))
				}
			}
			k.Send(sim.EncSubscribe(1, []string{st.Topic}, []byte{0}))
			if f := settle(); f != nil {
				return f, nontrivial
			}
			subsNow = append(subsNow, SubAt{st.Node, st.Topic})
			nontrivial = true
			continue
		}
		if st.C >= c.Clients || dead[st.C] {
			continue
		}
		if st.ID >= 1 && int(st.ID) <= len(c.IDs) {
			st.ID = c.IDs[st.ID-1]
		}
		k := pubs[st.C]
		payload := fmt.Sprintf("payload-%d", si)
		if st.Empty {
			payload = ""
		}
		setMark()
		// arm the fault plan
		failing := map[int]bool{}
		storedAnyway := map[int]bool{}
		arm := func() {
			var unreachable []uint64
			for _, ni := range st.FailNodes {
				if ni >= c.Nodes {
					continue
				}
				failing[ni] = true
				switch {
				case st.Mode == "panic":
					cl.Nodes[ni].Log.PanicNext(1, panicHook)
				case ni == 0:
					cl.Nodes[0].Log.FailNext(1)
				case st.Mode == "lostreply":
					// the remote node stores the message, the reply never arrives
					cl.Nodes[ni].LoseReplies(1)
					storedAnyway[ni] = true
				case st.Mode == "hang":
					cl.Nodes[ni].Log.HangNext(1, time.Duration(st.HangMs)*time.Millisecond)
				case st.Mode == "rpc":
					cl.Nodes[ni].Log.FailNext(1)
				default:
					unreachable = append(unreachable, uint64(ni+1))
				}
			}
			cl.SetUnreachable(unreachable...)
		}
		disarm := func() {
			cl.SetUnreachable()
			for _, n := range cl.Nodes {
				n.Log.FailNext(0)
				n.Log.PanicNext(0, nil)
				n.Log.HangNext(0, 0)
				n.LoseReplies(0)
			}
		}
		// expectWrites judges the writes and the acknowledgement of a forwarding step
		expectWrites := func(what, topic, pl string, ackType byte, id uint16, acksBefore int) *failure {
			D := dests(topic)
			ok, failed := appendsOf(pl)
			anyFail := false
			for ni := range cl.Nodes {
				wantOK := 0
				if D[ni] && (!failing[ni] || storedAnyway[ni]) {
					wantOK = 1
				}
				if ok[ni] != wantOK {
					return &failure{fmt.Sprintf("step %d (%s): payload stored %d time(s) on node %d, want %d (destinations %v, failing %v)", si, what, ok[ni], ni, wantOK, keys(D), keys(failing)), false}
				}
				if D[ni] && failing[ni] {
					anyFail = true
				}
				_ = failed
			}
			if ackType != 0 {
				got := count(k, ackType, id) - acksBefore
				want := 1
				if anyFail {
					want = 0
				}
				if got != want {
					return &failure{fmt.Sprintf("step %d (%s): %d %s sent, want %d (destinations %v, writes failing on %v)", si, what, got, sim.TypeName(ackType), want, keys(D), keys(failing)), false}
				}
				if anyFail {
					nontrivial = true
				}
			}
			return nil
		}
		switch st.Op {
		case "pub":
			switch st.QoS {
			case 0, 1:
				arm()
				before := count(k, sim.PUBACK, st.ID)
				k.Send(sim.EncPublish(st.Topic, []byte(payload), byte(st.QoS), st.Retain, st.Dup, st.ID))
				if f := settle(); f != nil {
					return f, nontrivial
				}
				disarm()
				ack := byte(0)
				if st.QoS == 1 {
					ack = sim.PUBACK
				}
				if f := expectWrites(fmt.Sprintf("PUBLISH qos %d id %d", st.QoS, st.ID), st.Topic, payload, ack, st.ID, before); f != nil {
					return f, nontrivial
				}
			case 2:
				_, isPending := pending[st.C][st.ID]
				recBefore := count(k, sim.PUBREC, st.ID)
				k.Send(sim.EncPublish(st.Topic, []byte(payload), 2, st.Retain, st.Dup, st.ID))
				if f := settle(); f != nil {
					return f, nontrivial
				}
				if ok, failed := appendsOf(payload); len(ok)+len(failed) != 0 {
					return &failure{fmt.Sprintf("step %d: QoS 2 PUBLISH id %d was forwarded before any PUBREL (stored on %v)", si, st.ID, ok), false}, nontrivial
				}
				if isPending {
					nontrivial = true
					// the broker refuses the duplicate registration and ends the session; what
					// matters here: nothing is forwarded, now or later
					if k.Conn.State().BrokerClosed {
						dead[st.C] = true
					}
					continue
				}
				if got := count(k, sim.PUBREC, st.ID) - recBefore; got != 1 {
					return &failure{fmt.Sprintf("step %d: QoS 2 PUBLISH id %d answered by %d PUBREC, want 1", si, st.ID, got), false}, nontrivial
				}
				pending[st.C][st.ID] = pend{payload, st.Topic}
			}
		case "pubrel":
			p, isPending := pending[st.C][st.ID]
			if isPending {
				arm()
			}
			before := count(k, sim.PUBCOMP, st.ID)
			k.Send(sim.EncAck(sim.PUBREL, st.ID))
			if f := settle(); f != nil {
				return f, nontrivial
			}
			disarm()
			if isPending {
				delete(pending[st.C], st.ID)
				if f := expectWrites(fmt.Sprintf("PUBREL id %d", st.ID), p.topic, p.payload, sim.PUBCOMP, st.ID, before); f != nil {
					return f, nontrivial
				}
			} else {
				nontrivial = true
				if got := count(k, sim.PUBCOMP, st.ID) - before; got != 0 {
					return &failure{fmt.Sprintf("step %d: PUBREL for id %d with no handshake pending was answered by PUBCOMP", si, st.ID), false}, nontrivial
				}
			}
		case "sweep":
			// the PUBREL deadline passes for every pending handshake
			cl.Nodes[0].Acks.SweepAll()
			if f := settle(); f != nil {
				return f, nontrivial
			}
			for i := range pending {
				if len(pending[i]) > 0 {
					nontrivial = true
				}
				pending[i] = map[uint16]pend{}
			}
		}
		// global: no payload is ever stored twice on a node, whatever was repeated
		for ni, n := range cl.Nodes {
			seen := map[string]int{}
			for _, a := range n.Log.Appends() {
				if !a.Err && a.Payload != "" {
					seen[a.Payload]++
					if seen[a.Payload] > 1 {
						return &failure{fmt.Sprintf("after step %d: payload %q stored %d times on node %d", si, a.Payload, seen[a.Payload], ni), false}, nontrivial
					}
				}
			}
		}
		if k.Conn.State().BrokerClosed {
			dead[st.C] = true
		}
	}
	return nil, nontrivial
}

func keys(m map[int]bool) []int {
	var out []int
	for k, v := range m {
		if v {
			out = append(out, k)
		}
	}
	sort.Ints(out)
	return out
}

func check(t ev.TB, c Case, labels ...string) {
	ev.WriteCurrent("inbound-publish", c)
	f, nt := run(c)
	if f != nil && !f.inconclusive {
		again := 0
		for i := 0; i < 2 && again == 0; i++ {
			if f2, _ := run(c); f2 != nil && !f2.inconclusive {
				again++
			}
		}
		if again == 0 {
			ev.Count("unconfirmed_failures", 1)
			f = nil
		}
	}
	for _, st := range c.Steps {
		if len(st.FailNodes) > 0 {
			labels = append(labels, "has-fault")
			break
		}
	}
	ev.Case(nt, c, append(labels, fmt.Sprintf("nodes:%d", c.Nodes))...)
	if f != nil && f.inconclusive {
		ev.Inconclusive(t, f.msg)
		return
	}
	if f != nil {
		ev.Fail(t, "inbound-publish", c, "%s", f.msg)
	}
}

var kinds = ev.Kinds{"inbound-publish": func(t ev.TB, raw json.RawMessage) {
	var c Case
	ev.Decode(t, raw, &c)
	check(t, c, "replay")
}}

func TestReplayFile(t *testing.T) { ev.ReplayFile(t, kinds) }
func TestRegress(t *testing.T)    { ev.Regress(t, kinds, "testdata/regress") }

var topics = []string{"a", "a/b", "b", "c"}
var filters = []string{"#", "a/#", "a", "b", "+/b"}

func TestRandom(t *testing.T) {
	rapid.Check(t, func(t *rapid.T) {
		c := Case{Nodes: rapid.IntRange(1, 3).Draw(t, "nodes"), Clients: rapid.IntRange(1, 2).Draw(t, "clients")}
		ns := rapid.IntRange(1, 4).Draw(t, "nsubs")
		for i := 0; i < ns; i++ {
			c.Subs = append(c.Subs, SubAt{rapid.IntRange(0, c.Nodes-1).Draw(t, "node"), rapid.SampledFrom(filters).Draw(t, "filter")})
		}
		c.IDs = rapid.SampledFrom([][]uint16{nil, nil, nil, {55296, 56319, 65533}, {127, 128, 256}, {32767, 32768, 65535}, {0xD800, 0xDFFF, 0xFFFD}}).Draw(t, "ids")
		n := rapid.IntRange(2, 14).Draw(t, "steps")
		for i := 0; i < n; i++ {
			st := Step{C: rapid.IntRange(0, c.Clients-1).Draw(t, "c"), ID: uint16(rapid.IntRange(1, 3).Draw(t, "id"))}
			if rapid.IntRange(0, 7).Draw(t, "lateSub") == 0 {
				c.Steps = append(c.Steps, Step{Op: "sub", Node: rapid.IntRange(0, c.Nodes-1).Draw(t, "subNode"), Topic: rapid.SampledFrom(filters).Draw(t, "subFilter")})
			}
			switch x := rapid.IntRange(0, 9).Draw(t, "op"); {
			case x < 5:
				st.Op, st.QoS, st.Topic, st.Dup = "pub", rapid.IntRange(0, 2).Draw(t, "qos"), rapid.SampledFrom(topics).Draw(t, "topic"), rapid.IntRange(0, 3).Draw(t, "dup") == 0
				st.Retain = rapid.IntRange(0, 2).Draw(t, "retain") == 0
				st.Empty = rapid.IntRange(0, 3).Draw(t, "empty") == 0
			case x < 9:
				st.Op = "pubrel"
			default:
				st.Op = "sweep"
			}
			if st.Op != "sweep" && rapid.IntRange(0, 2).Draw(t, "fault") > 0 {
				// a subset of the nodes; the interpreter applies it to the destinations among them
				mask := rapid.IntRange(1, 1<<c.Nodes-1).Draw(t, "failMask")
				for b := 0; b < c.Nodes; b++ {
					if mask&(1<<b) != 0 {
						st.FailNodes = append(st.FailNodes, b)
					}
				}
				st.Mode = rapid.SampledFrom([]string{"transport", "rpc", "lostreply"}).Draw(t, "mode")
			}
			c.Steps = append(c.Steps, st)
		}
		check(t, c)
	})
}

// TestFaultSubsets: for 3 nodes all hosting a matching subscriber, every subset of failing
// destinations × every mode × QoS 1 and the QoS 2 handshake.
func TestFaultSubsets(t *testing.T) {
	for mask := 0; mask < 8; mask++ {
		for _, mode := range []string{"transport", "rpc", "lostreply"} {
			var fn []int
			for b := 0; b < 3; b++ {
				if mask&(1<<b) != 0 {
					fn = append(fn, b)
				}
			}
			c := Case{Nodes: 3, Clients: 1, Subs: []SubAt{{0, "#"}, {1, "a/#"}, {2, "a"}}, Steps: []Step{
				{Op: "pub", QoS: 1, ID: 1, Topic: "a", FailNodes: fn, Mode: mode},
				{Op: "pub", QoS: 2, ID: 2, Topic: "a"},
				{Op: "pubrel", ID: 2, FailNodes: fn, Mode: mode},
				{Op: "pubrel", ID: 2},
				{Op: "pub", QoS: 0, ID: 0, Topic: "a", FailNodes: fn, Mode: mode},
				{Op: "pub", QoS: 1, ID: 1, Topic: "a"},
				{Op: "pub", QoS: 1, ID: 3, Topic: "a", Retain: true, Empty: true, FailNodes: fn, Mode: mode},
				{Op: "pub", QoS: 2, ID: 4, Topic: "a", Retain: true, Empty: true, Dup: true},
				{Op: "pubrel", ID: 4, FailNodes: fn, Mode: mode},
				{Op: "pub", QoS: 1, ID: 3, Topic: "a", Retain: true},
			}}
			check(t, c, "fault-subset-enumeration")
		}
	}
	ev.Exhaustive("3 nodes each hosting a matching subscriber: all 8 subsets of failing destinations x {peer unreachable, remote log refuses, reply lost after the remote append} (local node: local log refuses) for a QoS 1 publish, a QoS 2 PUBREL, a QoS 0 publish, and the same with RETAIN and a zero-length payload (QoS 2 with DUP set)")
}

// TestHangingRemote: a destination that stalls for several seconds of real time and then refuses
// the write is a failed destination like any other: no acknowledgement, however long the
// publisher's node was willing to wait. (Whatever patience the broker has, it is real time.)
func TestHangingRemote(t *testing.T) {
	var cases []Case
	for _, ms := range []int{6500, 9000} {
		cases = append(cases,
			Case{Nodes: 2, Clients: 1, Subs: []SubAt{{1, "a/#"}}, Steps: []Step{
				{Op: "pub", QoS: 1, ID: 1, Topic: "a", FailNodes: []int{1}, Mode: "hang", HangMs: ms},
				{Op: "pub", QoS: 1, ID: 1, Topic: "a"},
			}},
			Case{Nodes: 3, Clients: 1, Subs: []SubAt{{0, "#"}, {1, "a/#"}, {2, "a"}}, Steps: []Step{
				{Op: "pub", QoS: 2, ID: 2, Topic: "a"},
				{Op: "pubrel", ID: 2, FailNodes: []int{2}, Mode: "hang", HangMs: ms},
				{Op: "pubrel", ID: 2},
				{Op: "pub", QoS: 1, ID: 3, Topic: "a"},
			}})
	}
	for i, c := range cases {
		c := c
		t.Run(fmt.Sprint(i), func(t *testing.T) {
			t.Parallel()
			check(t, c, "hanging-remote")
		})
	}
}
