package c05

// A write that fails by PANICKING instead of returning an error.
//
// On the unchanged broker a panic below the publish worker ends the process: no acknowledgement
// is ever sent, which is what the property asks ("if any of those writes fails, no
// acknowledgement is sent"). A broker that survives such a write must not acknowledge either.
// A panic in a goroutine of the broker cannot be recovered by the test binary, so these cases run
// in a child process (the test binary re-executed); the child runs the ordinary interpreter with
// fault mode "panic" (the log wrapper says PANIC in the events file, then panics) and, if it is
// still alive afterwards, reports the interpreter's verdict.

import (
	"encoding/json"
	"fmt"
	"os"
	"os/exec"
	"path/filepath"
	"strings"
	"testing"
	"time"

	"pgregory.net/rapid"
	"verifharness/internal/ev"
)

var panicEvents *os.File

func panicHook() {
	if panicEvents != nil {
		panicEvents.WriteString("PANIC\n")
	}
}

func panicChild() {
	var c Case
	if err := json.Unmarshal([]byte(os.Getenv("C05_CASE")), &c); err != nil {
		os.Exit(3)
	}
	f, err := os.OpenFile(os.Getenv("C05_EVENTS"), os.O_WRONLY|os.O_APPEND|os.O_CREATE, 0644)
	if err != nil {
		os.Exit(3)
	}
	panicEvents = f
	f.WriteString("START\n")
	fl, _ := run(c)
	switch {
	case fl == nil:
		f.WriteString("RESULT ok\n")
	case fl.inconclusive:
		f.WriteString("RESULT inconclusive " + strings.ReplaceAll(fl.msg, "\n", " ") + "\n")
	default:
		f.WriteString("RESULT fail " + strings.ReplaceAll(fl.msg, "\n", " ") + "\n")
	}
	f.Close()
}

// runPanicChild returns (verdict message, the injected panic was reached, inconclusive reason)
func runPanicChild(c Case) (string, bool, string) {
	dir, err := os.MkdirTemp("", "c05panic")
	if err != nil {
		return "", false, err.Error()
	}
	defer os.RemoveAll(dir)
	events := filepath.Join(dir, "events")
	raw, _ := json.Marshal(c)
	cmd := exec.Command(os.Args[0], "-test.run", "^$")
	cmd.Env = append(os.Environ(), "C05_CHILD=1", "C05_CASE="+string(raw), "C05_EVENTS="+events, "VERIF_OUT=", "VERIF_REPLAY_DIR=")
	if err := cmd.Start(); err != nil {
		return "", false, "cannot start the child: " + err.Error()
	}
	done := make(chan error, 1)
	go func() { done <- cmd.Wait() }()
	timedOut := false
	select {
	case <-done:
	case <-time.After(150 * time.Second):
		timedOut = true
		cmd.Process.Kill()
		<-done
	}
	b, _ := os.ReadFile(events)
	out := string(b)
	reached := strings.Contains(out, "PANIC\n")
	for _, l := range strings.Split(out, "\n") {
		if strings.HasPrefix(l, "RESULT fail ") {
			return strings.TrimPrefix(l, "RESULT fail ") + " (the process survived a write that panicked)", reached, ""
		}
		if strings.HasPrefix(l, "RESULT inconclusive ") {
			return "", reached, strings.TrimPrefix(l, "RESULT ")
		}
	}
	if timedOut {
		return "", reached, "child did not finish"
	}
	if !strings.Contains(out, "START\n") {
		return "", reached, "child did not start"
	}
	// RESULT ok, or the process died: nothing was acknowledged after the write that failed
	return "", reached, ""
}

func panicCheck(t ev.TB, c Case, labels ...string) {
	ev.WriteCurrent("panicking-write", c)
	msg, reached, inc := runPanicChild(c)
	if msg != "" {
		// confirm
		if m2, _, _ := runPanicChild(c); m2 == "" {
			ev.Count("unconfirmed_failures", 1)
			msg = ""
		}
	}
	if reached {
		labels = append(labels, "panic-reached")
	}
	ev.Case(reached, c, append(labels, fmt.Sprintf("nodes:%d", c.Nodes))...)
	if inc != "" && msg == "" {
		ev.Inconclusive(t, inc)
		return
	}
	if msg != "" {
		ev.Fail(t, "panicking-write", c, "%s", msg)
	}
}

func init() {
	kinds["panicking-write"] = func(t ev.TB, raw json.RawMessage) {
		var c Case
		ev.Decode(t, raw, &c)
		panicCheck(t, c, "replay")
	}
}

// TestPanickingWrite: fixed topologies (1-3 destinations), the panic on the local or on a remote
// log, on a QoS 1 publish or on the PUBREL of a QoS 2 exchange, after ordinary traffic.
func TestPanickingWrite(t *testing.T) {
	var cases []Case
	for nodes := 1; nodes <= 3; nodes++ {
		subs := []SubAt{{0, "#"}, {1, "a/#"}, {2, "a"}}[:nodes]
		for victim := 0; victim < nodes; victim++ {
			cases = append(cases,
				Case{Nodes: nodes, Clients: 1, Subs: subs, Steps: []Step{
					{Op: "pub", QoS: 1, ID: 1, Topic: "a"},
					{Op: "pub", QoS: 1, ID: 2, Topic: "a", FailNodes: []int{victim}, Mode: "panic"},
					{Op: "pub", QoS: 1, ID: 3, Topic: "a"},
				}},
				Case{Nodes: nodes, Clients: 1, Subs: subs, Steps: []Step{
					{Op: "pub", QoS: 2, ID: 1, Topic: "a"},
					{Op: "pubrel", ID: 1, FailNodes: []int{victim}, Mode: "panic"},
					{Op: "pubrel", ID: 1},
					{Op: "pub", QoS: 1, ID: 3, Topic: "a"},
				}})
		}
	}
	for i, c := range cases {
		c := c
		t.Run(fmt.Sprint(i), func(t *testing.T) {
			t.Parallel()
			panicCheck(t, c, "panicking-write")
		})
	}
}

// TestPanickingWriteRandom: the generator of TestRandom with exactly one fault step turned into
// a panic.
func TestPanickingWriteRandom(t *testing.T) {
	rapid.Check(t, func(t *rapid.T) {
		c := Case{Nodes: rapid.IntRange(1, 3).Draw(t, "nodes"), Clients: 1}
		for i := 0; i < c.Nodes; i++ {
			c.Subs = append(c.Subs, SubAt{i, rapid.SampledFrom([]string{"#", "a/#", "a", "+"}).Draw(t, "filter")})
		}
		n := rapid.IntRange(0, 5).Draw(t, "before")
		id := uint16(1)
		open := []uint16{}
		for i := 0; i < n; i++ {
			switch rapid.IntRange(0, 2).Draw(t, "op") {
			case 0:
				c.Steps = append(c.Steps, Step{Op: "pub", QoS: rapid.IntRange(0, 1).Draw(t, "qos"), ID: id, Topic: "a", Retain: rapid.Bool().Draw(t, "retain")})
			case 1:
				c.Steps = append(c.Steps, Step{Op: "pub", QoS: 2, ID: id, Topic: "a"})
				open = append(open, id)
			case 2:
				if len(open) > 0 {
					c.Steps = append(c.Steps, Step{Op: "pubrel", ID: open[0]})
					open = open[1:]
				}
			}
			id++
		}
		victim := rapid.IntRange(0, c.Nodes-1).Draw(t, "victim")
		if len(open) > 0 && rapid.Bool().Draw(t, "viaPubrel") {
			c.Steps = append(c.Steps, Step{Op: "pubrel", ID: open[0], FailNodes: []int{victim}, Mode: "panic"})
		} else {
			c.Steps = append(c.Steps, Step{Op: "pub", QoS: 1, ID: id, Topic: "a", FailNodes: []int{victim}, Mode: "panic", Empty: rapid.IntRange(0, 3).Draw(t, "empty") == 0})
		}
		c.Steps = append(c.Steps, Step{Op: "pub", QoS: 1, ID: id + 1, Topic: "a"})
		panicCheck(t, c)
	})
}
