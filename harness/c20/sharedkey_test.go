package c20

import (
	"encoding/json"
	"fmt"
	"runtime"
	"strings"
	"sync"
	"sync/atomic"
	"testing"

	"github.com/vx-labs/mqtt-protocol/packet"
	"github.com/vx-labs/wasp/v4/subscriptions"
	"github.com/vx-labs/wasp/v4/topics"
	"github.com/vx-labs/wasp/v4/wasp/distributed"
	"verifharness/internal/dst"
	"verifharness/internal/ev"
)

// Operations on the SAME replicated key from several goroutines, in the two situations
// where the outcome does not depend on the schedule:
//
//   - merge: two versions of one entry (different stamps) are delivered to a node at the
//     same moment by two goroutines (memberlist calls NotifyMsg and MergeRemoteState from
//     different goroutines). Whatever the interleaving, the node must end with the version
//     that carries the later stamp — it has received both.
//   - set: two sessions publish a retained message on the same topic at the same moment on
//     one node. Whichever of them the node keeps, a mirror that receives the node's
//     broadcasts (all of them, in any order, any number of times) must keep the same one.
//
// The goroutines of a round are released by a spinning barrier so that the critical
// sections overlap; a round is cheap, a run does many thousands of them.
type SharedKeyCase struct {
	Kind   string `json:"kind"`   // merge | set
	Rounds int    `json:"rounds"` // keys raced, one after the other
	BigKB  int    `json:"big_kb"` // set: payload size of one of the two publishers
	Procs  int    `json:"gomaxprocs"`
}

type barrier struct {
	n     int32
	count int32
	gen   int32
}

func (b *barrier) wait() {
	gen := atomic.LoadInt32(&b.gen)
	if atomic.AddInt32(&b.count, 1) == b.n {
		atomic.StoreInt32(&b.count, 0)
		atomic.AddInt32(&b.gen, 1)
		return
	}
	for i := 0; atomic.LoadInt32(&b.gen) == gen; i++ {
		if i%64 == 63 {
			runtime.Gosched()
		}
	}
}

func runSharedKey(c SharedKeyCase) string {
	old := runtime.GOMAXPROCS(c.Procs)
	defer runtime.GOMAXPROCS(old)
	var tick int64 = 1_000_000
	defer distributed.VerifSetClock(func() int64 { return atomic.AddInt64(&tick, 1) })()
	switch c.Kind {
	case "merge":
		o1, o2, n := dst.NewNode(1), dst.NewNode(2), dst.NewNode(3)
		older := make([][]byte, c.Rounds)
		newer := make([][]byte, c.Rounds)
		want := map[string]string{}
		for r := 0; r < c.Rounds; r++ {
			topic := fmt.Sprintf("mp/k%d", r)
			// o1 writes first (earlier stamp), o2 afterwards (later stamp); every third round the later
			// write is a removal, every third round the earlier one is
			drain1 := func(nd *dst.Node) []byte {
				ms := nd.Drain()
				if len(ms) != 1 {
					panic(fmt.Sprintf("expected one broadcast, got %d", len(ms)))
				}
				return ms[0]
			}
			switch r % 3 {
			case 0:
				o1.State.Topics().Set(&packet.Publish{Header: &packet.Header{Retain: true}, Topic: []byte(topic), Payload: []byte("older")})
				older[r] = drain1(o1)
				o2.State.Topics().Set(&packet.Publish{Header: &packet.Header{Retain: true}, Topic: []byte(topic), Payload: []byte("newer")})
				newer[r] = drain1(o2)
				want[topic] = "newer"
			case 1:
				o1.State.Topics().Set(&packet.Publish{Header: &packet.Header{Retain: true}, Topic: []byte(topic), Payload: []byte("older")})
				older[r] = drain1(o1)
				o2.Deliver(older[r])
				o2.State.Topics().Delete([]byte(topic))
				newer[r] = drain1(o2)
			default:
				o1.State.Topics().Set(&packet.Publish{Header: &packet.Header{Retain: true}, Topic: []byte(topic), Payload: []byte("x")})
				o1.Drain()
				o1.State.Topics().Delete([]byte(topic))
				older[r] = drain1(o1)
				o2.State.Topics().Set(&packet.Publish{Header: &packet.Header{Retain: true}, Topic: []byte(topic), Payload: []byte("newer")})
				newer[r] = drain1(o2)
				want[topic] = "newer"
			}
		}
		b := &barrier{n: 2}
		var wg sync.WaitGroup
		for g := 0; g < 2; g++ {
			wg.Add(1)
			go func(g int) {
				defer wg.Done()
				for r := 0; r < c.Rounds; r++ {
					b.wait()
					// alternate which goroutine carries the newer version, and through which entry point
					m := older[r]
					if (g+r)%2 == 0 {
						m = newer[r]
					}
					if r%4 < 2 {
						n.State.Distributor().NotifyMsg(m)
					} else {
						n.State.Distributor().MergeRemoteState(m, false)
					}
				}
			}(g)
		}
		wg.Wait()
		got := map[string]string{}
		msgs, err := n.State.Topics().Get([]byte("mp/#"))
		if err != nil {
			return "Get: " + err.Error()
		}
		for _, m := range msgs {
			got[string(m.Publish.Topic)] = string(m.Publish.Payload)
		}
		bad := 0
		first := ""
		for r := 0; r < c.Rounds; r++ {
			topic := fmt.Sprintf("mp/k%d", r)
			if got[topic] != want[topic] {
				bad++
				if first == "" {
					first = fmt.Sprintf("round %d (%s): the node lists %q, the later of the two versions it received is %q", r, []string{"add then add", "add then remove", "remove then add"}[r%3], got[topic], want[topic])
				}
			}
		}
		if bad > 0 {
			return fmt.Sprintf("%d of %d keys ended with the older version after both versions were delivered concurrently; first: %s", bad, c.Rounds, first)
		}
	case "set":
		a, mirror := dst.NewNode(1), dst.NewNode(2)
		big := strings.Repeat("B", c.BigKB*1024)
		b := &barrier{n: 2}
		var wg sync.WaitGroup
		for g := 0; g < 2; g++ {
			wg.Add(1)
			go func(g int) {
				defer wg.Done()
				for r := 0; r < c.Rounds; r++ {
					topic := []byte(fmt.Sprintf("mp/k%d", r))
					b.wait()
					switch {
					case (g+r)%2 == 0:
						a.State.Topics().Set(&packet.Publish{Header: &packet.Header{Retain: true}, Topic: topic, Payload: []byte(big)})
					case r%5 == 4:
						a.State.Topics().Delete(topic)
					default:
						a.State.Topics().Set(&packet.Publish{Header: &packet.Header{Retain: true}, Topic: topic, Payload: []byte("small")})
					}
				}
			}(g)
		}
		wg.Wait()
		msgs := a.Drain()
		for _, m := range msgs {
			mirror.Deliver(m)
		}
		for i := len(msgs) - 1; i >= 0; i-- {
			mirror.Deliver(msgs[i])
		}
		short := func(v []string) []string {
			out := make([]string, len(v))
			for i, s := range v {
				if len(s) > 60 {
					s = s[:60] + "…"
				}
				out[i] = s
			}
			return out
		}
		va, vm := dst.ViewOf(a), dst.ViewOf(mirror)
		if len(va.Retained) != len(vm.Retained) {
			return fmt.Sprintf("origin lists %d retained messages, the mirror that received all of its %d broadcasts lists %d", len(va.Retained), len(msgs), len(vm.Retained))
		}
		for i := range va.Retained {
			if va.Retained[i] != vm.Retained[i] {
				return fmt.Sprintf("origin and mirror differ after the mirror received all %d broadcasts of the origin: origin %q, mirror %q", len(msgs), short(va.Retained[i:i+1]), short(vm.Retained[i:i+1]))
			}
		}
	case "snapshot":
		// writes on a node while full-state snapshots are taken from it; then nothing happens
		// any more, one more snapshot is taken and merged by a fresh node: it must list what the
		// node lists (a snapshot assembled during a write may or may not contain it; one taken
		// after the last write must)
		for r := 0; r < c.Rounds; r++ {
			a, fresh := dst.NewNode(1), dst.NewNode(2)
			var stop int32
			var wg sync.WaitGroup
			wg.Add(2)
			go func() {
				defer wg.Done()
				for atomic.LoadInt32(&stop) == 0 {
					a.State.Distributor().LocalState(false)
				}
			}()
			go func() {
				defer wg.Done()
				for i := 0; i < 40; i++ {
					sid := fmt.Sprintf("s%d", i%7)
					switch i % 5 {
					case 0:
						a.State.SessionMetadatas().Create(sid, "client-"+sid, int64(i), nil, "mp")
					case 1:
						a.State.Subscriptions().Create(sid, []byte(fmt.Sprintf("mp/f%d", i%3)), 1)
					case 2:
						a.State.Topics().Set(&packet.Publish{Header: &packet.Header{Retain: true}, Topic: []byte(fmt.Sprintf("mp/t%d", i%4)), Payload: []byte(fmt.Sprintf("v%d", i))})
					case 3:
						a.State.Subscriptions().Delete(sid, []byte(fmt.Sprintf("mp/f%d", (i+1)%3)))
					default:
						a.State.SessionMetadatas().Delete(fmt.Sprintf("s%d", (i+3)%7))
					}
				}
				atomic.StoreInt32(&stop, 1)
			}()
			wg.Wait()
			fresh.State.Distributor().MergeRemoteState(a.State.Distributor().LocalState(false), false)
			if d := dst.Diff("the node", dst.ViewOf(a), "a fresh node that merged the snapshot taken after the last write", dst.ViewOf(fresh)); d != "" {
				return fmt.Sprintf("round %d: %s", r, d)
			}
		}
	case "trieprefix-subs", "trieprefix-topics":
		// a key P has no value of its own and exists in the trie only because a longer key below
		// it is stored; one goroutine writes a value at P while another removes the longer key.
		// Whatever the interleaving, afterwards P holds the value and the longer key is gone.
		lost := 0
		first := ""
		b := &barrier{n: 2}
		var wg sync.WaitGroup
		stree := subscriptions.NewTree()
		ttree := topics.NewTree()
		for g := 0; g < 2; g++ {
			wg.Add(1)
			go func(g int) {
				defer wg.Done()
				for r := 0; r < c.Rounds; r++ {
					p := []byte(fmt.Sprintf("k%d/b", r))
					long := []byte(fmt.Sprintf("k%d/b/c", r))
					if g == 0 {
						// set up this round's longer key before the race
						if c.Kind == "trieprefix-subs" {
							stree.Upsert(long, func([]byte) []byte { return []byte("L") })
						} else {
							ttree.Insert(long, []byte("L"))
						}
					}
					b.wait()
					switch {
					case g == 0 && c.Kind == "trieprefix-subs":
						stree.Upsert(p, func([]byte) []byte { return []byte("P") })
					case g == 0:
						ttree.Insert(p, []byte("P"))
					case c.Kind == "trieprefix-subs":
						stree.Upsert(long, func([]byte) []byte { return nil })
					default:
						ttree.Remove(long)
					}
					b.wait()
					if g == 0 {
						var got []string
						if c.Kind == "trieprefix-subs" {
							stree.Walk(p, func(v []byte) {
								if len(v) > 0 {
									got = append(got, string(v))
								}
							})
						} else {
							var out [][]byte
							ttree.Match(p, &out)
							for _, v := range out {
								got = append(got, string(v))
							}
						}
						if len(got) != 1 || got[0] != "P" {
							lost++
							if first == "" {
								first = fmt.Sprintf("round %d: after writing %q while %q was being removed, a look-up of %q yields %q, want [P]", r, p, long, p, got)
							}
						}
						// keep the trie small
						if c.Kind == "trieprefix-subs" {
							stree.Upsert(p, func([]byte) []byte { return nil })
						} else {
							ttree.Remove(p)
						}
					}
					b.wait()
				}
			}(g)
		}
		wg.Wait()
		if lost > 0 {
			return fmt.Sprintf("%d of %d writes at a prefix key were lost; first: %s", lost, c.Rounds, first)
		}
	default:
		return "bad kind " + c.Kind
	}
	return ""
}

func checkSharedKey(t ev.TB, c SharedKeyCase) {
	ev.WriteCurrent("shared-key", c)
	ev.Case(true, c, "shared-key:"+c.Kind)
	ev.Count("shared_key_rounds", int64(c.Rounds))
	if msg := runSharedKey(c); msg != "" {
		ev.Fail(t, "shared-key", c, "%s", msg)
	}
}

func init() {
	kinds["shared-key"] = func(t ev.TB, raw json.RawMessage) {
		var c SharedKeyCase
		ev.Decode(t, raw, &c)
		checkSharedKey(t, c)
	}
}

func sharedKeyCases(kind string) []SharedKeyCase {
	all := []SharedKeyCase{
		{Kind: "merge", Rounds: 20000, Procs: 4},
		{Kind: "merge", Rounds: 20000, Procs: 16},
		{Kind: "set", Rounds: 600, BigKB: 256, Procs: 4},
		{Kind: "set", Rounds: 3000, BigKB: 16, Procs: 16},
		{Kind: "set", Rounds: 300, BigKB: 1024, Procs: 2},
		{Kind: "snapshot", Rounds: 150, Procs: 4},
		{Kind: "snapshot", Rounds: 150, Procs: 16},
		{Kind: "trieprefix-subs", Rounds: 300000, Procs: 4},
		{Kind: "trieprefix-topics", Rounds: 300000, Procs: 4},
	}
	var out []SharedKeyCase
	for _, c := range all {
		if kind == "" || c.Kind == kind {
			out = append(out, c)
		}
	}
	return out
}

func sharedKey(t *testing.T, kind string) {
	si, sn := ev.Shard()
	reps := ev.Scale(2, 10)
	i := 0
	for rep := 0; rep < reps; rep++ {
		for _, c := range sharedKeyCases(kind) {
			i++
			if i%sn != si {
				continue
			}
			checkSharedKey(t, c)
		}
	}
}

func TestSharedKey(t *testing.T)           { sharedKey(t, "") }
func TestSharedKeyMerge(t *testing.T)      { sharedKey(t, "merge") }
func TestSharedKeySet(t *testing.T)        { sharedKey(t, "set") }
func TestSharedKeySnapshot(t *testing.T)   { sharedKey(t, "snapshot") }
func TestSharedKeyTrieSubs(t *testing.T)   { sharedKey(t, "trieprefix-subs") }
func TestSharedKeyTrieTopics(t *testing.T) { sharedKey(t, "trieprefix-topics") }
