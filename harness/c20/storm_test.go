package c20

import (
	"encoding/json"
	"fmt"
	"strings"
	"sync"
	"sync/atomic"
	"testing"
	"time"

	"pgregory.net/rapid"
	"verifharness/internal/ev"
	"verifharness/internal/sim"
)

// Storm: whole broker nodes under concurrent load, built with -race. Publishers,
// subscribers, churning clients (connect / subscribe / publish / leave), a gossip pump
// between the nodes (including full-state exchanges) and expiry sweeps all run at once;
// afterwards the system is settled and judged.
type Storm struct {
	Nodes    int   `json:"nodes"`
	Pubs     int   `json:"pubs"`
	SubQoS   []int `json:"sub_qos"`
	PerPub   int   `json:"per_pub"`
	Churn    int   `json:"churn_clients"`
	Rounds   int   `json:"churn_rounds"`
	Sweeps   bool  `json:"late_sweeps"`        // also sweep with now = far future (forces retransmissions)
	RealLog  bool  `json:"real_log,omitempty"` // the commit log on disk instead of the in-memory log
	FullSync bool  `json:"full_sync"`
}

type failure struct {
	msg          string
	inconclusive bool
}

func runStorm(c Storm) *failure {
	cl, err := sim.NewCluster()
	if err != nil {
		return &failure{err.Error(), true}
	}
	defer cl.Close()
	cl.SettleBudget = 60 * time.Second
	for i := 0; i < c.Nodes; i++ {
		if _, err := cl.AddNode(sim.NodeOpts{MemLog: !c.RealLog}); err != nil {
			return &failure{err.Error(), true}
		}
	}
	var subs, pubs, churn []*sim.Client
	for i, q := range c.SubQoS {
		k := cl.NewClient(fmt.Sprintf("sub%d", i))
		k.AttachTo(cl.Nodes[i%c.Nodes])
		k.Send(sim.EncConnect(sim.ConnectOpts{ClientID: k.Name, KeepAlive: 60000}))
		k.Send(sim.EncSubscribe(1, []string{"t/#"}, []byte{byte(q)}))
		subs = append(subs, k)
	}
	for i := 0; i < c.Pubs; i++ {
		k := cl.NewClient(fmt.Sprintf("pub%d", i))
		k.AttachTo(cl.Nodes[(i+1)%c.Nodes])
		k.Send(sim.EncConnect(sim.ConnectOpts{ClientID: k.Name, KeepAlive: 60000}))
		pubs = append(pubs, k)
	}
	for i := 0; i < c.Churn*c.Rounds; i++ {
		churn = append(churn, cl.NewClient(fmt.Sprintf("churn%d", i)))
	}
	if err := cl.Settle(); err != nil {
		return &failure{err.Error(), true}
	}
	var stop int32
	var wg, pubWG sync.WaitGroup
	// publishers
	for pi, k := range pubs {
		pubWG.Add(1)
		go func(pi int, k *sim.Client) {
			defer pubWG.Done()
			for m := 0; m < c.PerPub; m++ {
				k.Send(sim.EncPublish(fmt.Sprintf("t/%d", pi), []byte(fmt.Sprintf("p%d-m%d", pi, m)), byte(m%3), false, false, uint16(20000+m)))
				k.Pump()
			}
			deadline := time.Now().Add(20 * time.Second)
			for time.Now().Before(deadline) {
				k.Pump()
				done := true
				for m := 0; m < c.PerPub; m++ {
					if (m%3 == 1 && !k.Has(sim.PUBACK, uint16(20000+m))) || (m%3 == 2 && !k.Has(sim.PUBCOMP, uint16(20000+m))) {
						done = false
					}
				}
				if done || k.Conn.State().BrokerClosed {
					return
				}
				time.Sleep(200 * time.Microsecond)
			}
		}(pi, k)
	}
	// subscribers keep reading and acknowledging
	for _, k := range subs {
		wg.Add(1)
		go func(k *sim.Client) {
			defer wg.Done()
			for atomic.LoadInt32(&stop) == 0 {
				k.Pump()
				time.Sleep(100 * time.Microsecond)
			}
		}(k)
	}
	// churn: sessions come and go while all this happens
	for w := 0; w < c.Churn; w++ {
		wg.Add(1)
		go func(w int) {
			defer wg.Done()
			for r := 0; r < c.Rounds; r++ {
				k := churn[w*c.Rounds+r]
				k.AttachTo(cl.Nodes[(w+r)%c.Nodes])
				k.Send(sim.EncConnect(sim.ConnectOpts{ClientID: k.Name, KeepAlive: 60000, WillTopic: "churn/will", WillPayload: k.Name}))
				k.Send(sim.EncSubscribe(1, []string{"churn/#", fmt.Sprintf("x/%d", w)}, []byte{1, 0}))
				k.Send(sim.EncPublish("churn/hello", []byte("hello-"+k.Name), 1, false, false, 30000))
				for i := 0; i < 200 && !k.Has(sim.PUBACK, 30000) && atomic.LoadInt32(&stop) == 0; i++ {
					k.Pump()
					time.Sleep(100 * time.Microsecond)
				}
				switch r % 3 {
				case 0:
					k.Send(sim.EncDisconnect())
				case 1:
					k.Close()
				default:
					k.Send(sim.EncUnsubscribe(2, []string{"churn/#"}))
					k.Send(sim.EncDisconnect())
				}
				k.Pump()
			}
		}(w)
	}
	// gossip pump between the nodes, with the occasional full-state exchange
	wg.Add(1)
	go func() {
		defer wg.Done()
		for i := 0; atomic.LoadInt32(&stop) == 0; i++ {
			for _, from := range cl.Nodes {
				for _, b := range from.Q.GetBroadcasts(0, 1<<20) {
					for _, to := range cl.Nodes {
						if to != from {
							to.State.Distributor().NotifyMsg(b)
						}
					}
				}
			}
			if c.FullSync && c.Nodes > 1 && i%50 == 0 {
				cl.FullSync(cl.Nodes[0], cl.Nodes[1])
			}
			time.Sleep(200 * time.Microsecond)
		}
	}()
	// expiry sweeps
	wg.Add(1)
	go func() {
		defer wg.Done()
		for i := 0; atomic.LoadInt32(&stop) == 0; i++ {
			for _, n := range cl.Nodes {
				if c.Sweeps && i%20 == 19 {
					n.Acks.SweepAll()
				} else {
					n.Acks.Sweep(time.Now().Add(-time.Hour))
				}
			}
			time.Sleep(500 * time.Microsecond)
		}
	}()
	pubWG.Wait()
	atomic.StoreInt32(&stop, 1)
	wg.Wait()
	if err := cl.Settle(); err != nil {
		return &failure{err.Error(), true}
	}
	// everything pending may expire once more, then settle again: nothing must be stuck
	for _, n := range cl.Nodes {
		n.Acks.SweepAll()
	}
	if err := cl.Settle(); err != nil {
		return &failure{err.Error(), true}
	}
	// ---- judgement (schedule-independent) -------------------------------------------------
	for _, k := range append(append([]*sim.Client{}, subs...), pubs...) {
		if k.ParseErr != nil {
			return &failure{k.ParseErr.Error(), false}
		}
	}
	overloaded := 0
	for pi, k := range pubs {
		if k.Conn.State().BrokerClosed {
			overloaded++ // the 800 ms hand-over budget of the broker can be exceeded under the race detector; not judged here
			continue
		}
		for m := 0; m < c.PerPub; m++ {
			acked := (m%3 == 1 && k.Has(sim.PUBACK, uint16(20000+m))) || (m%3 == 2 && k.Has(sim.PUBCOMP, uint16(20000+m)))
			if m%3 == 2 && c.Sweeps {
				// a late sweep may legitimately time the inbound QoS 2 handshake out between
				// PUBREC and PUBREL; the PUBCOMP is then never sent
			} else if m%3 != 0 && !acked {
				return &failure{fmt.Sprintf("pub%d message %d (qos %d) never acknowledged although the publisher stayed connected", pi, m, m%3), false}
			}
			if !acked {
				continue
			}
			payload := fmt.Sprintf("p%d-m%d", pi, m)
			for si, s := range subs {
				if s.Conn.State().BrokerClosed {
					continue
				}
				found := false
				for _, p := range s.Publishes() {
					if p.Payload == payload && p.Topic == fmt.Sprintf("t/%d", pi) {
						found = true
						break
					}
				}
				if !found {
					return &failure{fmt.Sprintf("message %s was acknowledged but never reached sub%d", payload, si), false}
				}
			}
		}
	}
	for si, s := range subs {
		for _, p := range s.Publishes() {
			if !strings.HasPrefix(p.Topic, "t/") || !strings.HasPrefix(p.Payload, "p") {
				return &failure{fmt.Sprintf("sub%d received a foreign or altered packet %v", si, p), false}
			}
		}
	}
	ev.Count("publishers_cut_by_overload", int64(overloaded))
	// the churn sessions are all gone: no record, no subscription of theirs anywhere
	live := map[string]bool{}
	for _, n := range cl.Nodes {
		for _, k := range append(append([]*sim.Client{}, subs...), pubs...) {
			if k.Node == n {
				live[n.Local.SessionOf(k.Conn)] = true
			}
		}
	}
	for _, n := range cl.Nodes {
		for _, s := range n.State.SessionMetadatas().All() {
			if !live[s.SessionID] {
				return &failure{fmt.Sprintf("node %s still lists session %s (client id %s) after all churn clients left", n.Name, s.SessionID, s.ClientID), false}
			}
		}
		for _, s := range n.State.Subscriptions().All() {
			if !live[s.SessionID] {
				return &failure{fmt.Sprintf("node %s still lists subscription %s of departed session %s", n.Name, s.Pattern, s.SessionID), false}
			}
		}
	}
	// everything was delivered and merged: the nodes hold the same records field by field (a
	// record shared with another goroutine and altered in place after it was announced differs)
	for r := 0; r < 3; r++ {
		if cl.DeliverAllGossip() == 0 {
			break
		}
		if err := cl.Settle(); err != nil {
			return &failure{err.Error(), true}
		}
	}
	if d := cl.SnapshotDiff(); d != "" {
		return &failure{"replicated records differ after the storm although every broadcast was delivered: " + d, false}
	}
	return nil
}

func checkStorm(t ev.TB, c Storm, labels ...string) {
	ev.WriteCurrent("storm", c)
	ev.Case(c.Pubs+len(c.SubQoS)+c.Churn >= 3, c, append(labels, "storm", fmt.Sprintf("nodes:%d", c.Nodes))...)
	f := runStorm(c)
	if f != nil && !f.inconclusive {
		if f2 := runStorm(c); f2 == nil || f2.inconclusive {
			if f3 := runStorm(c); f3 == nil || f3.inconclusive {
				ev.Count("unconfirmed_failures", 1)
				f = nil
			}
		}
	}
	if f != nil && f.inconclusive {
		ev.Inconclusive(t, f.msg)
		return
	}
	if f != nil {
		ev.Fail(t, "storm", c, "%s", f.msg)
	}
}

func init() {
	kinds["storm"] = func(t ev.TB, raw json.RawMessage) {
		var c Storm
		ev.Decode(t, raw, &c)
		for i := 0; i < 5; i++ {
			checkStorm(t, c, "replay")
		}
	}
}

func TestStorm(t *testing.T) {
	rapid.Check(t, func(t *rapid.T) {
		c := Storm{Nodes: rapid.IntRange(1, 2).Draw(t, "nodes"), Pubs: rapid.IntRange(1, 4).Draw(t, "pubs"), PerPub: rapid.IntRange(3, 40).Draw(t, "perPub"),
			Churn: rapid.IntRange(0, 3).Draw(t, "churn"), Rounds: rapid.IntRange(1, 4).Draw(t, "rounds"), Sweeps: rapid.Bool().Draw(t, "sweeps"), FullSync: rapid.Bool().Draw(t, "fullsync")}
		c.RealLog = rapid.IntRange(0, 3).Draw(t, "realLog") == 0
		ns := rapid.IntRange(1, 4).Draw(t, "subs")
		for i := 0; i < ns; i++ {
			c.SubQoS = append(c.SubQoS, rapid.IntRange(0, 2).Draw(t, "subqos"))
		}
		checkStorm(t, c)
	})
}
