// C20 — shared broker state is safe under concurrent use.
//
// This file: generated concurrent programs on each shared structure, run under the race
// detector; every goroutine owns a private key space so that the post-conditions do not
// depend on the schedule. storm_test.go runs whole broker nodes under concurrent load.
package c20

import (
	"encoding/json"
	"fmt"
	"runtime"
	"sort"
	"strings"
	"sync"
	"sync/atomic"
	"testing"
	"time"

	"github.com/vx-labs/mqtt-protocol/packet"
	"github.com/vx-labs/wasp/v4/subscriptions"
	"github.com/vx-labs/wasp/v4/topics"
	"github.com/vx-labs/wasp/v4/wasp"
	"github.com/vx-labs/wasp/v4/wasp/expiration"
	"github.com/vx-labs/wasp/v4/wasp/sessions"
	"pgregory.net/rapid"
	"verifharness/internal/dst"
	"verifharness/internal/ev"
	"verifharness/internal/sim"
)

func TestMain(m *testing.M) { ev.Main(m, "C20") }

// Prog: Ops[g] is goroutine g's list of (code, arg) pairs; what a code means depends on Target.
type Prog struct {
	Target string  `json:"target"` // registry | idpool | list | topics | subs | dstate | session
	Ops    [][]int `json:"ops"`    // Ops[g] = flat list code,arg,code,arg,…
	Procs  int     `json:"gomaxprocs"`
	Yield  int     `json:"yield_every"`
	Runs   int     `json:"runs"`
}

var kinds = ev.Kinds{}

func TestReplayFile(t *testing.T) { ev.ReplayFile(t, kinds) }
func TestRegress(t *testing.T)    { ev.Regress(t, kinds, "testdata/regress") }

type runner func(p Prog) string

var runners = map[string]runner{}

// parallel runs body(g, code, arg) for every op of every goroutine concurrently.
func parallel(p Prog, body func(g, i, code, arg int)) (panicked string) {
	old := runtime.GOMAXPROCS(p.Procs)
	defer runtime.GOMAXPROCS(old)
	var wg sync.WaitGroup
	var pv atomic.Value
	start := make(chan struct{})
	for g := range p.Ops {
		wg.Add(1)
		go func(g int) {
			defer wg.Done()
			defer func() {
				if r := recover(); r != nil {
					pv.Store(fmt.Sprintf("goroutine %d panicked: %v", g, r))
				}
			}()
			<-start
			ops := p.Ops[g]
			for i := 0; i+1 < len(ops); i += 2 {
				if p.Yield > 0 && (i/2)%p.Yield == 0 {
					runtime.Gosched()
				}
				body(g, i/2, ops[i], ops[i+1])
			}
		}(g)
	}
	close(start)
	finished := make(chan struct{})
	go func() { wg.Wait(); close(finished) }()
	select {
	case <-finished:
	case <-time.After(30 * time.Second):
		// nothing here takes more than milliseconds: goroutines that are still inside an operation
		// are blocked for good (a lock that was never released)
		return "operations on distinct keys have not returned after 30 s: some goroutine is blocked inside the structure for good"
	}
	if v := pv.Load(); v != nil {
		return v.(string)
	}
	return ""
}

// ---- session registry ---------------------------------------------------------------------

func init() {
	runners["registry"] = func(p Prog) string {
		reg := wasp.NewState(1)
		want := make([]map[string]bool, len(p.Ops))
		for g := range want {
			want[g] = map[string]bool{}
		}
		mk := func(id string) *sessions.Session {
			s, _ := sessions.NewSession(id, "mp", "t", nil, &packet.Connect{ClientId: []byte(id), KeepaliveTimer: 10})
			return s
		}
		if m := parallel(p, func(g, i, code, arg int) {
			id := fmt.Sprintf("g%d-k%d", g, arg%8)
			switch code % 5 {
			case 0, 1:
				reg.Create(id, mk(id))
				want[g][id] = true
			case 2:
				reg.Delete(id)
				delete(want[g], id)
			case 3:
				if s := reg.Get(fmt.Sprintf("g%d-k%d", arg%len(p.Ops), arg%8)); s != nil {
					_ = s.ID()
				}
			default:
				for _, s := range reg.ListSessions() {
					_ = s.ID()
				}
			}
		}); m != "" {
			return m
		}
		got := map[string]bool{}
		for _, s := range reg.ListSessions() {
			got[s.ID()] = true
		}
		exp := map[string]bool{}
		for g := range want {
			for id := range want[g] {
				exp[id] = true
				if s := reg.Get(id); s == nil || s.ID() != id {
					return fmt.Sprintf("registry lost %s (created by its owner, not deleted)", id)
				}
			}
		}
		if len(got) != len(exp) {
			return fmt.Sprintf("registry lists %d sessions, %d expected", len(got), len(exp))
		}
		return ""
	}

	// ---- identifier pool ------------------------------------------------------------------
	runners["idpool"] = func(p Prog) string {
		const max = 40
		pool := wasp.VerifNewMIDPool(1, max)
		var mu sync.Mutex
		outstanding := map[int32]int{}
		held := make([][]int32, len(p.Ops))
		var dup atomic.Value
		if m := parallel(p, func(g, i, code, arg int) {
			switch code % 4 {
			case 0, 1:
				v := pool.Get()
				if v >= 1 && v <= max {
					mu.Lock()
					if _, busy := outstanding[v]; busy {
						dup.Store(fmt.Sprintf("identifier %d handed to goroutine %d while goroutine %d still holds it", v, g, outstanding[v]))
					}
					outstanding[v] = g
					mu.Unlock()
					held[g] = append(held[g], v)
				}
			case 2:
				if len(held[g]) > 0 {
					k := arg % len(held[g])
					v := held[g][k]
					held[g] = append(held[g][:k], held[g][k+1:]...)
					mu.Lock()
					delete(outstanding, v)
					mu.Unlock()
					pool.Put(v)
				}
			default:
				pool.Put(int32(max + 1 + arg%5)) // out of range: no effect
			}
		}); m != "" {
			return m
		}
		if v := dup.Load(); v != nil {
			return v.(string)
		}
		free := map[int32]bool{}
		for i := 0; i < max+2; i++ {
			v := pool.Get()
			if v < 1 || v > max {
				break
			}
			if free[v] {
				return fmt.Sprintf("after the run the pool hands out %d twice", v)
			}
			if _, busy := outstanding[v]; busy {
				return fmt.Sprintf("after the run the pool hands out %d which is still outstanding", v)
			}
			free[v] = true
		}
		if len(free)+len(outstanding) != max {
			return fmt.Sprintf("after the run %d identifiers are free and %d outstanding, %d in range", len(free), len(outstanding), max)
		}
		return ""
	}

	// ---- timeout list ----------------------------------------------------------------------
	runners["list"] = func(p Prog) string {
		l := expiration.NewList()
		base := time.Unix(1600000000, 0)
		type item struct {
			deadline time.Time
			deleted  bool
		}
		items := make([]map[string]*item, len(p.Ops))
		for g := range items {
			items[g] = map[string]*item{}
		}
		var emu sync.Mutex
		expired := map[string]int{}
		seq := make([]int, len(p.Ops))
		if m := parallel(p, func(g, i, code, arg int) {
			switch code % 5 {
			case 0, 1:
				seq[g]++
				id := fmt.Sprintf("g%d-%d", g, seq[g])
				d := base.Add(time.Duration(arg%4000) * time.Millisecond)
				items[g][id] = &item{deadline: d}
				l.Insert(id, d)
			case 2:
				for id, it := range items[g] {
					if !it.deleted {
						it.deleted = true
						l.Delete(id, it.deadline)
						break
					}
				}
			default:
				for _, v := range l.Expire(base.Add(time.Duration(arg%5000) * time.Millisecond)) {
					emu.Lock()
					expired[v.(string)]++
					emu.Unlock()
				}
			}
		}); m != "" {
			return m
		}
		for _, v := range l.Expire(base.Add(time.Hour)) {
			expired[v.(string)]++
		}
		for g := range items {
			for id, it := range items[g] {
				n := expired[id]
				if n > 1 {
					return fmt.Sprintf("item %s was reported expired %d times", id, n)
				}
				if !it.deleted && n != 1 {
					return fmt.Sprintf("item %s (never deleted) was reported expired %d times after the final sweep, want 1", id, n)
				}
			}
		}
		return ""
	}

	// ---- tries -------------------------------------------------------------------------------
	runners["topics"] = func(p Prog) string {
		tr := topics.NewTree()
		want := make([]map[string]string, len(p.Ops))
		for g := range want {
			want[g] = map[string]string{}
		}
		if m := parallel(p, func(g, i, code, arg int) {
			key := fmt.Sprintf("g%d/%s", g, []string{"a", "a/b", "a/b/c", "b", "a/c"}[arg%5])
			switch code % 7 {
			case 0, 1:
				v := fmt.Sprintf("v%d-%d", g, i)
				tr.Insert([]byte(key), []byte(v))
				want[g][key] = v
			case 2:
				tr.Remove([]byte(key))
				delete(want[g], key)
			case 3:
				var out [][]byte
				tr.Match([]byte(fmt.Sprintf("g%d/#", arg%len(p.Ops))), &out)
			case 4:
				tr.Iterate(func(b []byte) { _ = len(b) })
			case 5:
				_ = tr.Count()
			default:
				if b, err := tr.Dump(); err == nil {
					topics.NewTree().Load(b)
				}
			}
		}); m != "" {
			return m
		}
		n := 0
		for g := range want {
			for k, v := range want[g] {
				n++
				var out [][]byte
				tr.Match([]byte(k), &out)
				if len(out) != 1 || string(out[0]) != v {
					return fmt.Sprintf("topics store: key %s holds %q, its owner last wrote %q", k, out, v)
				}
			}
		}
		if tr.Count() != n {
			return fmt.Sprintf("topics store counts %d entries, %d expected", tr.Count(), n)
		}
		return ""
	}
	runners["subs"] = func(p Prog) string {
		tr := subscriptions.NewTree()
		want := make([]map[string]string, len(p.Ops))
		for g := range want {
			want[g] = map[string]string{}
		}
		if m := parallel(p, func(g, i, code, arg int) {
			key := fmt.Sprintf("g%d/%s", g, []string{"a", "a/b", "a/+", "#", "a/c"}[arg%5])
			switch code % 6 {
			case 0, 1:
				v := fmt.Sprintf("v%d-%d", g, i)
				tr.Upsert([]byte(key), func([]byte) []byte { return []byte(v) })
				want[g][key] = v
			case 2:
				tr.Upsert([]byte(key), func([]byte) []byte { return nil })
				delete(want[g], key)
			case 3:
				tr.Walk([]byte(fmt.Sprintf("g%d/a/b", arg%len(p.Ops))), func(b []byte) { _ = len(b) })
			case 4:
				tr.Iterate(func(b []byte) { _ = len(b) })
			default:
				if b, err := tr.Dump(); err == nil {
					subscriptions.NewTree().Load(b)
				}
			}
		}); m != "" {
			return m
		}
		got := map[string]bool{}
		tr.Iterate(func(b []byte) { got[string(b)] = true })
		n := 0
		for g := range want {
			for k, v := range want[g] {
				n++
				if !got[v] {
					return fmt.Sprintf("subscription index: value %q written last at %s by its owner is gone", v, k)
				}
			}
		}
		if len(got) != n {
			return fmt.Sprintf("subscription index holds %d values, %d expected", len(got), n)
		}
		return ""
	}

	// ---- replicated state ----------------------------------------------------------------------
	runners["dstate"] = func(p Prog) string {
		peer := dst.NewNode(9)
		for i := 0; i < 6; i++ {
			peer.State.SessionMetadatas().Create(fmt.Sprintf("peer-s%d", i), "pc", 1, nil, "mp")
			peer.State.Subscriptions().Create(fmt.Sprintf("peer-s%d", i), []byte("mp/peer/+"), 1)
			peer.State.Topics().Set(&packet.Publish{Header: &packet.Header{Retain: true}, Topic: []byte(fmt.Sprintf("mp/peer/t%d", i)), Payload: []byte("x")})
		}
		msgs := peer.Drain()
		snap := peer.Snapshot()
		// a retained message whose topic NAME contains a wildcard (the broker stores what clients
		// send), gossiped by a third node: a merge may refuse it, but must not harm anything else
		wild := dst.NewNode(8)
		wild.State.Topics().Set(&packet.Publish{Header: &packet.Header{Retain: true}, Topic: []byte("mp/peer/+"), Payload: []byte("wild")})
		msgs = append(msgs, wild.Drain()...)
		n := dst.NewNode(1)
		type exp struct {
			sess map[string]bool
			subs map[string]bool
			ret  map[string]string
		}
		want := make([]exp, len(p.Ops))
		for g := range want {
			want[g] = exp{map[string]bool{}, map[string]bool{}, map[string]string{}}
		}
		if m := parallel(p, func(g, i, code, arg int) {
			sid := fmt.Sprintf("g%d-s%d", g, arg%3)
			filter := fmt.Sprintf("mp/g%d/%s", g, []string{"a", "a/+", "#"}[arg%3])
			topic := fmt.Sprintf("mp/g%d/t%d", g, arg%3)
			switch code % 12 {
			case 0:
				if n.State.SessionMetadatas().Create(sid, "c", 1, nil, "mp") == nil {
					want[g].sess[sid] = true
				}
			case 1:
				n.State.SessionMetadatas().Delete(sid)
				delete(want[g].sess, sid)
			case 2, 3:
				n.State.Subscriptions().Create(sid, []byte(filter), 1)
				want[g].subs[filter+"|"+sid] = true
			case 4:
				n.State.Subscriptions().Delete(sid, []byte(filter))
				delete(want[g].subs, filter+"|"+sid)
			case 5:
				n.State.Subscriptions().DeleteSession(sid)
				for k := range want[g].subs {
					if strings.HasSuffix(k, "|"+sid) {
						delete(want[g].subs, k)
					}
				}
			case 6:
				v := fmt.Sprintf("v%d", i)
				n.State.Topics().Set(&packet.Publish{Header: &packet.Header{Retain: true}, Topic: []byte(topic), Payload: []byte(v)})
				want[g].ret[topic] = v
			case 7:
				n.State.Topics().Delete([]byte(topic))
				delete(want[g].ret, topic)
			case 8:
				n.Deliver(msgs[arg%len(msgs)])
			case 9:
				_ = n.Snapshot()
			case 10:
				n.MergeSnapshot(snap)
			default:
				n.State.Subscriptions().ByPattern([]byte(fmt.Sprintf("mp/g%d/a/b", arg%len(p.Ops))))
				n.State.SessionMetadatas().All()
				n.State.Topics().Get([]byte("mp/#"))
				n.Q.GetBroadcasts(0, 1<<20)
			}
		}); m != "" {
			return m
		}
		var v dst.View
		settled := make(chan struct{})
		go func() {
			defer close(settled)
			for _, m := range msgs {
				n.Deliver(m)
			}
			v = dst.ViewOf(n)
		}()
		select {
		case <-settled:
		case <-time.After(30 * time.Second):
			return "the node has not returned from merging the peers' broadcasts and listing its state after 30 s: an operation is blocked for good"
		}
		has := func(list []string, prefix string) bool {
			for _, s := range list {
				if strings.HasPrefix(s, prefix) {
					return true
				}
			}
			return false
		}
		cs, cu, cr := 6, 6, 6
		for g := range want {
			for sid := range want[g].sess {
				cs++
				if !has(v.Sessions, sid+" ") {
					return fmt.Sprintf("replicated state lost session %s", sid)
				}
			}
			for k := range want[g].subs {
				cu++
				if !has(v.Subscriptions, k+" ") {
					return fmt.Sprintf("replicated state lost subscription %s", k)
				}
			}
			for tp, val := range want[g].ret {
				cr++
				if !has(v.Retained, fmt.Sprintf("%s=%q", tp, val)) {
					return fmt.Sprintf("replicated state lost retained %s=%s (lists %v)", tp, val, v.Retained)
				}
			}
		}
		if has(v.Retained, "mp/peer/+=") {
			cr++ // it arrived before two topics it would match as a filter were stored
		}
		if len(v.Sessions) != cs || len(v.Subscriptions) != cu || len(v.Retained) != cr {
			return fmt.Sprintf("replicated state lists %d/%d/%d sessions/subscriptions/retained, expected %d/%d/%d", len(v.Sessions), len(v.Subscriptions), len(v.Retained), cs, cu, cr)
		}
		return ""
	}

	// ---- per-session filter list ----------------------------------------------------------------
	runners["session"] = func(p Prog) string {
		clk := &sim.Clock{}
		var act int64
		s, _ := sessions.NewSession("s", "mp", "t", sim.NewConn("c", clk, &act), &packet.Connect{ClientId: []byte("c"), KeepaliveTimer: 10})
		want := make([]map[string]bool, len(p.Ops))
		for g := range want {
			want[g] = map[string]bool{}
		}
		if m := parallel(p, func(g, i, code, arg int) {
			tp := fmt.Sprintf("mp/g%d/f%d", g, arg%4)
			switch code % 4 {
			case 0, 1:
				s.AddTopic([]byte(tp))
				want[g][tp] = true
			case 2:
				s.RemoveTopic([]byte(tp))
				delete(want[g], tp)
			default:
				// what teardown does: walk the list it was given
				for _, t := range s.GetTopics() {
					_ = len(t)
				}
				s.ExtendDeadline()
			}
		}); m != "" {
			return m
		}
		got := map[string]int{}
		for _, t := range s.GetTopics() {
			got[string(t)]++
		}
		n := 0
		for g := range want {
			for tp := range want[g] {
				n++
				if got[tp] != 1 {
					return fmt.Sprintf("session filter list holds %q %d times, want once", tp, got[tp])
				}
			}
		}
		if len(got) != n {
			var ks []string
			for k := range got {
				ks = append(ks, k)
			}
			sort.Strings(ks)
			return fmt.Sprintf("session filter list holds %d filters, %d expected (%v)", len(got), n, ks)
		}
		return ""
	}
}

func checkProg(t ev.TB, p Prog, labels ...string) {
	ev.WriteCurrent("concurrent-program", p)
	writers := 0
	for _, ops := range p.Ops {
		if len(ops) > 0 {
			writers++
		}
	}
	ev.Case(writers >= 2, p, append(labels, "target:"+p.Target)...)
	run := runners[p.Target]
	if run == nil {
		t.Fatalf("bad target %q", p.Target)
	}
	for i := 0; i < p.Runs; i++ {
		if msg := run(p); msg != "" {
			ev.Fail(t, "concurrent-program", p, "run %d: %s", i, msg)
		}
	}
	ev.Count("program_executions", int64(p.Runs))
}

func init() {
	kinds["concurrent-program"] = func(t ev.TB, raw json.RawMessage) {
		var p Prog
		ev.Decode(t, raw, &p)
		p.Runs = 30
		checkProg(t, p, "replay")
	}
}

var targets = []string{"registry", "idpool", "list", "topics", "subs", "dstate", "session"}

func TestStructs(t *testing.T) {
	runs := ev.Scale(3, 12)
	rapid.Check(t, func(t *rapid.T) {
		p := Prog{Target: rapid.SampledFrom(targets).Draw(t, "target"), Procs: rapid.SampledFrom([]int{2, 4, 16}).Draw(t, "procs"),
			Yield: rapid.SampledFrom([]int{0, 1, 4}).Draw(t, "yield"), Runs: runs}
		g := rapid.IntRange(2, 8).Draw(t, "goroutines")
		for i := 0; i < g; i++ {
			n := rapid.IntRange(20, 200).Draw(t, "n")
			if p.Target == "dstate" {
				n = n/4 + 5
			}
			ops := make([]int, 0, 2*n)
			for j := 0; j < n; j++ {
				ops = append(ops, rapid.IntRange(0, 11).Draw(t, "code"), rapid.IntRange(0, 9999).Draw(t, "arg"))
			}
			p.Ops = append(p.Ops, ops)
		}
		checkProg(t, p)
	})
}
