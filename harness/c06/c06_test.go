// C06 — packet identifiers in flight are unique and never leak.
//
// The allocator (wasp/idpool.go, reached through the verif hook VerifNewMIDPool) is driven
// with generated Get/Put histories next to a set of outstanding identifiers.
package c06

import (
	"encoding/json"
	"fmt"
	"runtime"
	"strconv"
	"sync"
	"sync/atomic"
	"testing"

	"github.com/vx-labs/wasp/v4/wasp"
	"pgregory.net/rapid"
	"verifharness/internal/ev"
)

func TestMain(m *testing.M) { ev.Main(m, "C06") }

// Case: ops are "G" (allocate) or "P<id>" (release id).
type Case struct {
	Min   int32    `json:"min"`
	Max   int32    `json:"max"`
	Ops   []string `json:"ops"`
	Drain bool     `json:"drain"` // after the history, allocate until exhaustion and compare with the model's free set
}

// run returns a message ("" = ok) and the non-trivial flag: the history contains a release
// that joins two free runs (both neighbours free, the id itself outstanding) or reaches
// exhaustion.
func run(c Case) (msg string, nontrivial bool) {
	defer func() {
		if r := recover(); r != nil {
			msg = fmt.Sprintf("panic: %v", r)
		}
	}()
	pool := wasp.VerifNewMIDPool(c.Min, c.Max)
	size := int(c.Max-c.Min) + 1
	out := map[int32]bool{}
	inRange := func(v int32) bool { return v >= c.Min && v <= c.Max }
	for i, op := range c.Ops {
		if op == "G" {
			v := pool.Get()
			if inRange(v) {
				if out[v] {
					return fmt.Sprintf("step %d: Get returned %d which is still outstanding", i, v), nontrivial
				}
				out[v] = true
			} else {
				if len(out) != size {
					return fmt.Sprintf("step %d: Get reported exhaustion (%d) with %d of %d identifiers outstanding", i, v, len(out), size), nontrivial
				}
				nontrivial = true
			}
			continue
		}
		id64, err := strconv.ParseInt(op[1:], 10, 32)
		if err != nil {
			return "bad op " + op, false
		}
		id := int32(id64)
		if out[id] && inRange(id-1) && inRange(id+1) && !out[id-1] && !out[id+1] {
			nontrivial = true
		}
		pool.Put(id)
		delete(out, id)
	}
	if !c.Drain {
		return "", nontrivial
	}
	// Behavioural read-out of the allocator state: what it still hands out must be exactly
	// the identifiers the model says are free, each once.
	got := map[int32]bool{}
	for n := 0; n <= size; n++ {
		v := pool.Get()
		if !inRange(v) {
			break
		}
		if out[v] {
			return fmt.Sprintf("drain: Get returned %d which is still outstanding", v), nontrivial
		}
		if got[v] {
			return fmt.Sprintf("drain: Get returned %d twice", v), nontrivial
		}
		got[v] = true
	}
	if len(got)+len(out) != size {
		missing := []int32{}
		for v := c.Min; v <= c.Max && len(missing) < 8; v++ {
			if !out[v] && !got[v] {
				missing = append(missing, v)
			}
		}
		return fmt.Sprintf("drain: %d identifiers outstanding + %d handed out != %d in range; never handed out (leaked): %v…", len(out), len(got), size, missing), nontrivial
	}
	if v := pool.Get(); inRange(v) {
		return fmt.Sprintf("drain: every identifier is outstanding but Get returned %d instead of exhaustion", v), nontrivial
	}
	return "", nontrivial
}

func check(t ev.TB, c Case, labels ...string) {
	msg, nt := run(c)
	ev.Case(nt, c, labels...)
	if msg != "" {
		ev.Fail(t, "idpool-history", c, "%s", msg)
	}
}

func interp(t ev.TB, raw json.RawMessage) {
	var c Case
	ev.Decode(t, raw, &c)
	check(t, c, "replay")
}

var kinds = ev.Kinds{"idpool-history": interp}

func TestReplayFile(t *testing.T) { ev.ReplayFile(t, kinds) }
func TestRegress(t *testing.T)    { ev.Regress(t, kinds, "testdata/regress") }

// TestEnum: every Get/Put history up to depth D on small ranges, with Put arguments
// covering every identifier of the range plus one below and one above it; each history
// ends with the drain read-out. Lengths in increasing order (first failure is shortest).
func TestEnum(t *testing.T) {
	type rg struct {
		min, max int32
		depth    [2]int // quick, thorough
	}
	ranges := []rg{{0, 2, [2]int{7, 9}}, {1, 3, [2]int{7, 9}}, {1, 5, [2]int{6, 7}}, {0, 5, [2]int{5, 7}}, {3, 8, [2]int{5, 6}}}
	si, sn := ev.Shard()
	for _, r := range ranges {
		D := r.depth[0]
		if ev.Tier() == "thorough" {
			D = r.depth[1]
		}
		al := []string{"G"}
		for v := r.min - 1; v <= r.max+1; v++ {
			al = append(al, "P"+strconv.Itoa(int(v)))
		}
		idx := 0
		for l := 1; l <= D; l++ {
			var rec func(prefix []string)
			rec = func(prefix []string) {
				if len(prefix) == l {
					idx++
					if idx%sn != si {
						return
					}
					c := Case{Min: r.min, Max: r.max, Ops: append([]string{}, prefix...), Drain: true}
					msg, nt := run(c)
					ev.CaseKey(nt, fmt.Sprint(r.min, r.max, prefix), func() interface{} { return c }, "enum")
					if msg != "" {
						ev.Fail(t, "idpool-history", c, "%s", msg)
					}
					return
				}
				for _, o := range al {
					rec(append(prefix, o))
				}
			}
			rec(nil)
		}
		ev.Exhaustive(fmt.Sprintf("range %d..%d (shard %d/%d): all histories of length 1..%d over {Get, Put(x) | x in %d..%d}, each followed by a drain read-out", r.min, r.max, si, sn, D, r.min-1, r.max+1))
	}
}

// genHistory builds a history from bursts so that the pool is driven to high occupancy
// and back, with releases in random / ascending / descending order and releases of free,
// unknown and out-of-range identifiers. The generator tracks its own approximation of
// the outstanding set only to aim Puts at interesting ids; the oracle does not use it.
func genHistory(t *rapid.T, min, max int32) []string {
	size := int(max-min) + 1
	var ops []string
	var held []int32 // ids we believe are outstanding (ascending allocation assumed only as a heuristic)
	next := min
	bursts := rapid.IntRange(1, 12).Draw(t, "bursts")
	for b := 0; b < bursts; b++ {
		switch rapid.IntRange(0, 5).Draw(t, "burst") {
		case 0, 1: // allocate a run
			n := rapid.IntRange(1, 40).Draw(t, "gets")
			if rapid.IntRange(0, 9).Draw(t, "fill") == 0 && size <= 70000 {
				n = size + rapid.IntRange(-2, 3).Draw(t, "fillDelta") - len(held)
				if n < 1 {
					n = 1
				}
			}
			for i := 0; i < n; i++ {
				ops = append(ops, "G")
				if next <= max {
					held = append(held, next)
					next++
				}
			}
		case 2: // release some held ids, in some order
			if len(held) == 0 {
				ops = append(ops, "G")
				continue
			}
			n := rapid.IntRange(1, len(held)).Draw(t, "puts")
			if n > 60 && rapid.IntRange(0, 3).Draw(t, "many") > 0 {
				n = 60
			}
			order := rapid.IntRange(0, 2).Draw(t, "order")
			start := rapid.IntRange(0, len(held)-n).Draw(t, "start")
			chunk := append([]int32{}, held[start:start+n]...)
			held = append(held[:start], held[start+n:]...)
			switch order {
			case 1:
				for i, j := 0, len(chunk)-1; i < j; i, j = i+1, j-1 {
					chunk[i], chunk[j] = chunk[j], chunk[i]
				}
			case 2:
				chunk = rapid.Permutation(chunk).Draw(t, "perm")
			}
			for _, id := range chunk {
				ops = append(ops, "P"+strconv.Itoa(int(id)))
			}
			if len(held) == 0 || rapid.Bool().Draw(t, "reuse") {
				// freed ids are handed out again lowest-first; restart the heuristic below them
				lo := chunk[0]
				for _, id := range chunk {
					if id < lo {
						lo = id
					}
				}
				if lo < next {
					next = lo
				}
			}
		case 3: // every-other release: creates many single-id free runs, then joins them
			var keep []int32
			var second []int32
			for i, id := range held {
				if i%2 == 0 {
					ops = append(ops, "P"+strconv.Itoa(int(id)))
				} else {
					keep = append(keep, id)
					second = append(second, id)
				}
				if i > 80 {
					keep = append(keep, held[i+1:]...)
					break
				}
			}
			held = keep
			if rapid.Bool().Draw(t, "join") {
				for _, id := range second {
					ops = append(ops, "P"+strconv.Itoa(int(id)))
				}
				held = nil
				if len(keep) > len(second) {
					held = keep[len(second):]
				}
			}
		case 4: // releases that must change nothing
			n := rapid.IntRange(1, 6).Draw(t, "noops")
			for i := 0; i < n; i++ {
				var id int32
				switch rapid.IntRange(0, 3).Draw(t, "noopKind") {
				case 0:
					id = min - int32(rapid.IntRange(1, 3).Draw(t, "below"))
				case 1:
					id = max + int32(rapid.IntRange(1, 3).Draw(t, "above"))
				default:
					id = int32(rapid.Int32Range(min, max).Draw(t, "any"))
				}
				ops = append(ops, "P"+strconv.Itoa(int(id)))
			}
		case 5: // alternate
			n := rapid.IntRange(1, 20).Draw(t, "alt")
			for i := 0; i < n; i++ {
				ops = append(ops, "G")
				if rapid.Bool().Draw(t, "putBack") {
					ops = append(ops, "P"+strconv.Itoa(int(rapid.Int32Range(min, min+int32(minInt(size-1, 50))).Draw(t, "low"))))
				}
			}
		}
	}
	return ops
}

func minInt(a, b int) int {
	if a < b {
		return a
	}
	return b
}

// TestRandom: long histories on the production range 0..65535 and on mid-sized ranges.
func TestRandom(t *testing.T) {
	rapid.Check(t, func(t *rapid.T) {
		var min, max int32
		label := "range:production"
		switch rapid.IntRange(0, 3).Draw(t, "range") {
		case 0, 1:
			min, max = 0, 65535
		case 2:
			min = int32(rapid.IntRange(0, 3).Draw(t, "min"))
			max = min + int32(rapid.IntRange(0, 40).Draw(t, "span"))
			label = "range:small"
		default:
			min, max = 1, 65535
			label = "range:1-65535"
		}
		c := Case{Min: min, Max: max, Ops: genHistory(t, min, max)}
		c.Drain = max-min < 100 || rapid.IntRange(0, 3).Draw(t, "drain") == 0
		labels := []string{label}
		if len(c.Ops) > 60000 {
			labels = append(labels, "filled-production-range")
		}
		check(t, c, labels...)
	})
}

// TestExhaustedRace: the allocator under the one schedule its histories cannot reach — every
// identifier is outstanding, one goroutine asks for another while a second one returns one
// at the same moment. Whatever the interleaving: the asker gets nothing or the returned
// identifier; and once both are done an identifier that was returned is available.
func TestExhaustedRace(t *testing.T) {
	rounds := ev.Scale(300000, 2000000)
	for _, size := range []int32{1, 2, 3} {
		c := map[string]interface{}{"scenario": "Get racing Put on an exhausted allocator", "range": fmt.Sprintf("1..%d", size), "rounds": rounds}
		ev.Case(true, c, "exhausted-race")
		pool := wasp.VerifNewMIDPool(1, size)
		held := map[int32]bool{}
		for {
			v := pool.Get()
			if v < 1 || v > size {
				break
			}
			held[v] = true
		}
		if int32(len(held)) != size {
			ev.Fail(t, "idpool-race", c, "allocator 1..%d handed out %d identifiers before reporting exhaustion", size, len(held))
			return
		}
		var count, gen int32
		wait := func() {
			g := atomic.LoadInt32(&gen)
			if atomic.AddInt32(&count, 1) == 2 {
				atomic.StoreInt32(&count, 0)
				atomic.AddInt32(&gen, 1)
				return
			}
			for i := 0; atomic.LoadInt32(&gen) == g; i++ {
				if i%64 == 63 {
					runtime.Gosched()
				}
			}
		}
		got := make([]int32, rounds)
		var wg sync.WaitGroup
		bad := ""
		wg.Add(2)
		go func() { // the asker
			defer wg.Done()
			for r := 0; r < rounds; r++ {
				wait()
				got[r] = pool.Get()
				wait()
				wait()
			}
		}()
		go func() { // the returner, and the judge between rounds
			defer wg.Done()
			for r := 0; r < rounds; r++ {
				id := int32(r%int(size)) + 1
				wait()
				pool.Put(id)
				wait()
				// quiescent
				v := got[r]
				switch {
				case v == id:
					// the asker got it: it is outstanding again
				case v >= 1 && v <= size:
					if bad == "" {
						bad = fmt.Sprintf("round %d: the asker was handed %d, which is outstanding (only %d was returned)", r, v, id)
					}
				default:
					// the asker was told "exhausted": the returned identifier must be available now
					if w := pool.Get(); w != id && bad == "" {
						bad = fmt.Sprintf("round %d: identifier %d was returned while another goroutine was told the allocator was exhausted; afterwards Get() = %d, want %d", r, id, w, id)
					}
				}
				wait()
			}
		}()
		wg.Wait()
		ev.Count("race_rounds", int64(rounds))
		if bad != "" {
			ev.Fail(t, "idpool-race", c, "%s", bad)
			return
		}
	}
}

func init() {
	kinds["idpool-race"] = func(t ev.TB, raw json.RawMessage) {
		if tt, ok := t.(*testing.T); ok {
			TestExhaustedRace(tt)
		}
	}
}
