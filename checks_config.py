"""Per-property run plans for ./check (what to build, which tests, how many cases)."""

PROPS = {}

# commits in /repo that add the build-tag-guarded hooks
HOOK_COMMITS = ["9f732f2"]

# properties deliberately not claimed, with the reason (none so far: unclaimed ones are simply not built yet)
NOT_APPLICABLE = {}

PROPS["C19"] = dict(
    level="exploration",
    manifest=dict(
        text=("Model-based testing of both tries against map[string]string: exhaustive over all operation sequences up to "
              "length 4 (quick) / 5 (thorough) on the five keys of the quantifier with dump/load at every position, seeded "
              "random sequences (rapid, shrinking) over generated key sets beyond that. Exhaustive only inside that bound."),
        note="Trusted: Go toolchain, rapid, the map model and comparison in harness/c19. Keys are wildcard-free topic names.",
        technique="model-based property testing: exhaustive small-scope enumeration + rapid generated sequences against a map oracle",
    ),
    rule=("cases are operation sequences (write v1/v2, remove, upsert-append, dump->Load) on topics.Store / "
          "subscriptions.Tree compared with a map[string]string after every step; exhaustive part: all sequences "
          "up to length L (4 quick / 5 thorough) over keys a, a/b, a/b/c, a/c, b; random part: 1-12 steps over "
          "generated key sets (deeper prefixes, siblings, empty and multi-byte levels). Non-trivial = the sequence "
          "removes/replaces/appends a key while a prefix or extension of it is present, or continues after a "
          "round trip. Distinct = distinct (store, key set, sequence)."),
    assumptions=[
        "keys are topic names without wildcards; values are non-empty byte strings",
        "subscriptions.Tree has no Count(); only Iterate is compared there",
        "reference model: map[string]string (harness/c19)",
    ],
    runs=[
        dict(name="regress", pkg="c19", run="TestRegress"),
        dict(name="enum", pkg="c19", run="TestEnum", shards=dict(quick=1, thorough=16), timeout=dict(quick=300, thorough=1500)),
        dict(name="random", pkg="c19", run="TestRandom", checks=dict(quick=160000, thorough=1600000),
             shards=dict(quick=4, thorough=16), timeout=dict(quick=300, thorough=1500)),
        # a value written at a valueless prefix key while the only longer key below it is removed (package c20)
        dict(name="concurrentprefix", pkg="c20", run="TestSharedKeyTrieSubs|TestSharedKeyTrieTopics", shards=dict(quick=4, thorough=8), timeout=dict(quick=300, thorough=1800)),
    ],
)

PROPS["C06"] = dict(
    level="exploration",
    manifest=dict(
        text=("Model-based testing of the identifier allocator against a set of outstanding ids: every Get/Put history up to a "
              "depth bound on five small ranges (with a drain read-out of the reached state), plus seeded random burst "
              "histories on the production range 0..65535 including complete exhaustion. Exhaustive only inside the bound."),
        note="Trusted: Go toolchain, rapid, the set model in harness/c06, the verif hook exporting the unchanged constructor.",
        technique="model-based property testing: exhaustive history enumeration + rapid generated histories against a set oracle",
    ),
    rule=("cases are Get/Put histories on the packet-id allocator compared with a set of outstanding ids (Get must "
          "return a free id of the range, or an out-of-range value only when the range is exhausted; Put of a free/"
          "unknown/out-of-range id changes nothing; no panic), each followed by a drain read-out (allocate until "
          "exhaustion: exactly the model's free ids, each once). Exhaustive part: all histories up to depth D on the "
          "ranges 0..2, 1..3, 1..5, 0..5, 3..8 with Put arguments min-1..max+1; random part: burst-structured "
          "histories on 0..65535, 1..65535 and small ranges, including filling the whole production range. "
          "Non-trivial = a Put joins two free runs, or exhaustion is reached. Distinct = distinct (range, history)."),
    assumptions=[
        "the allocator is reached through the verif hook wasp.VerifNewMIDPool (same constructor the writer uses)",
        "'exhaustion' is any return value outside [min,max]",
        "writer level: the C03 scripts (package c03) run here too: ids on the wire are non-zero and pairwise distinct among open exchanges, all ids free again at the end",
    ],
    runs=[
        dict(name="regress", pkg="c06", run="TestRegress"),
        dict(name="enum", pkg="c06", run="TestEnum", shards=dict(quick=4, thorough=16), timeout=dict(quick=300, thorough=1800)),
        dict(name="random", pkg="c06", run="TestRandom", checks=dict(quick=16000, thorough=200000),
             shards=dict(quick=6, thorough=16), timeout=dict(quick=300, thorough=1800)),
        # writer level (the property's third observation point: ids of PUBLISH packets written to subscribers):
        # the C03 scripts check that ids on the wire are non-zero and distinct among open exchanges and that
        # every id 1..65535 is free again at the end
        dict(name="writer", pkg="c03", run="TestRandom", checks=dict(quick=240, thorough=3000), shards=16, timeout=dict(quick=400, thorough=2400), shrinktime="60s"),
        dict(name="exhaustedrace", pkg="c06", run="TestExhaustedRace", timeout=600),
    ],
)

PROPS["C04"] = dict(
    level="exploration",
    manifest=dict(
        text=("Model-based testing of ack.Queue (and of both timeout-list implementations underneath) against a table of live "
              "entries with an outcome counter per registration: exhaustive over all histories up to length 4/5 on a 15-step "
              "alphabet, seeded random histories of 3-40 steps over 3 sessions x 5 ids with a deadline/sweep grid built to hit "
              "equal deadlines, same-second and rounding boundaries; plus generated concurrent programs (2-8 goroutines) run "
              "under the race detector with schedule-independent invariants, a one-key hammer (8 goroutines registering, acknowledging with right "
              "and wrong types and sweeping ONE key: every registration resolved exactly once and never before its deadline), and a fresh-second "
              "hammer on both list implementations (the first two entries of 100000+ deadline-seconds arrive from two goroutines at the same moment "
              "with different sub-second deadlines and are removed again: the final sweep must report nothing; kept: each exactly once). "
              "Schedules are sampled, not enumerated."),
        note=("Trusted: Go toolchain and race detector, rapid, the table model in harness/c04. 'To the second' is read as: a sweep at "
              "now must expire an entry if now-deadline >= 1s, must not if deadline-now >= 1s, either in between."),
        technique="model-based property testing (exhaustive small scope + rapid histories) and randomized concurrent stress under -race",
    ),
    rule=("sequential cases: histories of register (4 valid kinds, 2 rejected kinds, id 0, optional re-registration from the expiry "
          "callback as the writer does) / acknowledge (4 ack types + a non-acker) / sweep(now) on ack.NewQueue(), then a final sweep; "
          "oracle: Insert/Ack return values, which callbacks fire during which operation with which arguments, exactly one outcome per "
          "registration. List-level cases: Insert/Delete/Update/Expire on the production list and on the skip list against a table. "
          "Concurrent cases: 2-8 goroutines with generated op lists on shared and private sessions, GOMAXPROCS 2/4/16, yield injection. "
          "Non-trivial (sequential) = an ack or sweep happens while >= 2 live entries have deadlines in the same second, or a wrong-type "
          "ack hits a live entry; (concurrent) = >= 2 goroutines operate on the shared session. Distinct = distinct case."),
    assumptions=[
        "deadline tolerance: must expire if now-deadline >= 1s, must not if deadline-now >= 1s, either in between (model adopts)",
        "an entry re-registered from a callback during a sweep may or may not be expired by that same sweep",
        "timeout-list keys are unique among live items (the in-flight table's PutIfMissing guarantees it)",
        "the skip list (not used in production) is exercised with Insert/Delete/Expire only",
        "'the same session and identifier' is read per direction: an exchange started by the peer (stored PUBREC, PUBREL awaited) and an exchange started by the broker may use the same number at the same time (MQTT: independent identifier spaces; repair 512b194)",
    ],
    runs=[
        # a second sweep overlapping the callbacks of a running one (other goroutine / from inside a callback), an entry registered in between: 1728 scenarios
        dict(name="overlap", pkg="c04", run="TestOverlappingSweeps", timeout=300),
        # long histories: a key registered again exactly 256n / 65536n registrations later (per-queue counters that wrap)
        dict(name="long", pkg="c04", run="TestLongHistories", checks=dict(quick=480, thorough=8000), shards=16, timeout=dict(quick=400, thorough=2400), shrinktime="60s"),
        dict(name="regress", pkg="c04", run="TestRegress"),
        dict(name="enum", pkg="c04", run="TestEnum", shards=dict(quick=2, thorough=16), timeout=dict(quick=300, thorough=1800)),
        dict(name="random", pkg="c04", run="TestRandom", checks=dict(quick=200000, thorough=1500000),
             shards=dict(quick=8, thorough=16), timeout=dict(quick=300, thorough=1800)),
        dict(name="list", pkg="c04", run="TestListRandom", checks=dict(quick=100000, thorough=800000),
             shards=dict(quick=4, thorough=8), timeout=dict(quick=300, thorough=1800)),
        dict(name="skiplist", pkg="c04", run="TestListSkipRandom", checks=dict(quick=20000, thorough=400000),
             shards=dict(quick=2, thorough=8), timeout=dict(quick=300, thorough=1800)),
        dict(name="concurrent", pkg="c04", run="TestConcurrent", race=True, checks=dict(quick=1600, thorough=8000),
             shards=dict(quick=4, thorough=16), timeout=dict(quick=300, thorough=1800)),
        dict(name="hammer", pkg="c04", run="TestHammerOneKey", race=True, shards=dict(quick=2, thorough=8), timeout=dict(quick=300, thorough=1800)),
        dict(name="freshseconds", pkg="c04", run="TestHammerFreshSeconds", shards=dict(quick=2, thorough=8), timeout=dict(quick=300, thorough=1800)),
        dict(name="bigsweep", pkg="c04", run="TestHammerBigSweep", shards=dict(quick=2, thorough=8), timeout=dict(quick=300, thorough=1800)),
        dict(name="manyentries", pkg="c04", run="TestManyEntries", timeout=600),
    ],
)

_CRDT_NOTE = ("Trusted: Go toolchain, rapid, the reference LWW table / map model in harness/internal/dst (decoding of the real broadcast "
              "bytes included), the verif hook that lets the harness own distributed.clock. Gossip is delivered by hand through the real "
              "NotifyMsg / LocalState / MergeRemoteState; memberlist itself is not run.")

PROPS["C08"] = dict(
    level="exploration",
    manifest=dict(
        text=("Real distributed.State replicas fed with the same multiset of real broadcasts under generated permutations, "
              "duplications (1-3x) and batchings, origins with clock offsets 0/±1s/±1h included; for update sets of <= 5 updates ALL "
              "permutations x all contiguous batchings x one duplicated element are enumerated. Oracle: every node lists exactly the "
              "state of a reference last-writer-wins table built from the decoded updates, and re-delivery changes nothing. Concurrent deliveries: "
              "two versions of one retained entry handed to a node at the same moment by two goroutines, 20000 keys per run: the later version must stay."),
        note=_CRDT_NOTE + " Session ids are created at most once (they are UUIDs in the broker). Cases where two different updates of one key tie on the timestamp are excluded and counted.",
        technique="property-based testing with a reference LWW model; exhaustive enumeration of delivery schedules for small update sets",
    ),
    rule=("a case = origin phase (2-3 origins with clock offsets performing 1-12 real local operations on sessions, subscriptions — "
          "including neighbouring filters and bulk removals — and retained topics; every queued broadcast is one update; updates may be "
          "shared between origins immediately) + delivery schedules (batches of update indices, repeats allowed) for 2-3 fresh replicas and "
          "for the origins. TestAllDeliveries enumerates all schedules for sets of <= 5 updates (counter deliveries_enumerated). "
          "Non-trivial = some key is touched by >= 2 updates of which at least one adds and one removes. Distinct = distinct case."),
    assumptions=[
        "distinct updates to one key carry distinct timestamps, or agree on what is visible (otherwise the case is excluded and counted)",
        "a session id is created at most once (UUIDs); everything else unrestricted",
        "an origin has 'received' its own writes and what was shared with it; it is then delivered exactly what it misses (plus optional repeats)",
    ],
    runs=[
        # 70 000 / 300 000 changes of each kind, delivered in order, reversed and shuffled (batches, duplicates) to three replicas vs. the reference table
        dict(name="volume", pkg="c08", run="TestVolume", timeout=dict(quick=400, thorough=2400)),
        dict(name="regress", pkg="c08", run="TestRegress"),
        dict(name="random", pkg="c08", run="TestRandom", checks=dict(quick=120000, thorough=800000),
             shards=dict(quick=8, thorough=16), timeout=dict(quick=300, thorough=1800)),
        dict(name="alldeliveries", pkg="c08", run="TestAllDeliveries", checks=dict(quick=3200, thorough=40000),
             shards=dict(quick=8, thorough=16), timeout=dict(quick=300, thorough=1800)),
        # two versions of one entry delivered at the same moment by two goroutines (package c20)
        dict(name="concurrentmerge", pkg="c20", run="TestSharedKeyMerge", shards=dict(quick=4, thorough=8), timeout=dict(quick=300, thorough=1800)),

    ],
)

PROPS["C09"] = dict(
    level="exploration",
    manifest=dict(
        text=("Lock-step mirror test: after EACH generated operation on node A the broadcasts queued by that operation are delivered to a "
              "mirror B; A, B and an independent map model of the operation semantics must list the same sessions, subscriptions and retained "
              "messages, and a bulk operation's broadcast must name every entry the model says it touched. Random histories (1-30 ops, rapid). "
              "Concurrent writers: two goroutines publish a retained message (large / small / clear) on the same topic of one node at the same moment; "
              "a mirror that receives all of the node's broadcasts, in both orders, must list what the node lists."),
        note=_CRDT_NOTE,
        technique="model-based property testing: lock-step differential (origin vs. mirror fed by the broadcasts vs. map model)",
    ),
    rule=("a case = up to 8 operations on a peer P (whose gossip reaches A and B) followed by 1-30 operations on A over 4 sessions x 4 filters "
          "x 4 topics x peers {A,P}: session Create/Delete/DeletePeer, subscription Create/Delete/DeleteSession/DeletePeer, retained Set/Delete; "
          "checked after every operation. Non-trivial = a bulk operation touches >= 2 entries. Distinct = distinct case."),
    assumptions=["node clock strictly increasing (one writer at a time)", "visible state = All()/Get('#') through the public read API"],
    runs=[
        # bulk removals of every size 1..130 (thorough 600): a session's subscriptions, a failed peer's sessions and subscriptions
        dict(name="bulk", pkg="c09", run="TestBulkSizes", timeout=dict(quick=300, thorough=1800)),
        # the broadcasts of 70 000 / 300 000 changes of each kind carry the changes: replicas fed with them list what the reference table lists (package c08)
        dict(name="volume", pkg="c08", run="TestVolume", timeout=dict(quick=400, thorough=2400)),
        dict(name="regress", pkg="c09", run="TestRegress"),
        # every distinct broadcast is merged: pairs of different broadcasts that agree under a family of 32-bit fingerprints (birthday search
        # over 200 000 / 1 500 000 real broadcasts), delivered adjacent, reversed, with duplicates, and a few hundred messages apart
        dict(name="fingerprints", pkg="c09", run="TestFingerprints", timeout=dict(quick=300, thorough=1800)),
        dict(name="random", pkg="c09", run="TestRandom", checks=dict(quick=80000, thorough=1000000),
             shards=dict(quick=8, thorough=16), timeout=dict(quick=300, thorough=1800)),
        # two local writers of one retained topic at the same moment: origin vs. mirror (package c20)
        dict(name="concurrentset", pkg="c20", run="TestSharedKeySet", shards=dict(quick=6, thorough=12), timeout=dict(quick=300, thorough=1800)),
    ],
)

PROPS["C10"] = dict(
    level="exploration",
    manifest=dict(
        text=("Two real nodes run generated histories while a generated subset of the gossip between them is lost, then exchange full-state "
              "snapshots (A->B, B->A, both orders; B possibly brand new). Oracle: per-node reference LWW tables including tombstones; after a "
              "merge the receiver must list exactly the LWW merge of both histories, a fresh receiver exactly what the sender lists, both "
              "directions => identical; the snapshot bytes must carry every stored entry exactly once."),
        note=_CRDT_NOTE,
        technique="property-based testing with a reference LWW model over generated divergent histories and loss patterns",
    ),
    rule=("a case = 1-24 steps (node, operation, delivered?) + exchange mode + fresh-B flag. Non-trivial = A holds >= 2 entries of one kind and "
          "at least one removal made on A did not reach B before the exchange. Distinct = distinct case."),
    assumptions=["one global strictly increasing clock (clock skew is C08's subject)", "the model tracks each node during the history and is itself compared with the node before the exchange"],
    runs=[
        # one snapshot of 70 000 / 300 000 entries of each kind, merged by a fresh node and by a node that had received every other gossip message
        dict(name="big", pkg="c10", run="TestBigSnapshot", timeout=dict(quick=400, thorough=2400)),
        # every snapshot size 1..1100 (thorough 4200) sessions / twice as many subscriptions / half as many retained messages, with removals:
        # merged by a fresh node and by a node that lives on snapshots alone
        dict(name="sizes", pkg="c10", run="TestSizes", shards=dict(quick=8, thorough=16), timeout=dict(quick=300, thorough=2400)),
        dict(name="regress", pkg="c10", run="TestRegress"),
        dict(name="random", pkg="c10", run="TestRandom", checks=dict(quick=200000, thorough=1000000),
             shards=dict(quick=8, thorough=16), timeout=dict(quick=300, thorough=1800)),
        # snapshots taken while the node is written to, then one after the last write (package c20)
        dict(name="concurrentsnapshot", pkg="c20", run="TestSharedKeySnapshot", shards=dict(quick=4, thorough=8), timeout=dict(quick=300, thorough=1800)),
    ],
)

PROPS["C01"] = dict(
    level="exploration",
    manifest=dict(
        text=("Reference-matcher oracle at three observation points. (1) subscriptions.Tree.Walk: exhaustive over all 935 filters x 339 topics of "
              "up to 4 levels over {a,b,c,empty,+,#}, one filter at a time; (2) sets of 2-12 filters (tree and SubscriptionsState.ByPattern) x all "
              "339 topics, plus deep/UTF-8 topics — the answer for a set must be the union of the single answers; (3) subscribe/unsubscribe/"
              "re-subscribe/DeleteSession histories on a real distributed.State versus a state built directly from the final active set. "
              "(4) end to end through a running in-process broker (e2e_test.go): scripts of connect / multi-filter SUBSCRIBE / UNSUBSCRIBE / PUBLISH / a "
              "subscriber that stops reading / an operator removing one subscription through the node's DeleteSubscription RPC (the session then often "
              "asks for the same filter again, at the same or another QoS) on 1-2 nodes, delivery multiset per client after every step. (5) digest collisions: pairs of topic "
              "names that collide under the usual 32-bit hash functions (fnv32/32a, crc32, adler32, folded fnv64a; with and without the mount-point "
              "prefix) are published alternately between subscription changes: each publish must reach the subscriber of its own topic only."),
        note="Trusted: Go toolchain, rapid, the 15-line reference matcher (unit-tested on the MQTT 3.1.1 section 4.7 examples). Filters are valid MQTT filters; '$'-topics are not special-cased; topics contain no wildcard characters.",
        technique="exhaustive small-scope enumeration + rapid generated filter sets and subscription histories against a reference MQTT matcher",
    ),
    rule=("pair cases: (filter, topic) with the filter alone in the index; set cases: 2-12 generated filters, all universe topics (or 40+ deep "
          "topics); history cases: 1-30 sub/unsub/unsuball ops over 4 sessions x 6 drawn filters + a rebuild order. Non-trivial: pair = filter "
          "or topic contains a wildcard or an empty level; set = two filters share a prefix; history = a subscribe happens after an unsubscribe. "
          "Distinct = distinct case."),
    assumptions=["valid MQTT filters ('#' last, wildcards fill a level)", "topic names non-empty and wildcard-free", "'$' topics not special-cased (the broker prefixes every topic with the mount point anyway)"],
    runs=[
        # at the very moment a session holds its UNSUBACK a publish from another client is sent and acknowledged: not delivered to it, delivered to a session still subscribed
        dict(name="unsuback", pkg="c01", run="TestPublishAtUnsubAck", checks=dict(quick=96, thorough=1600), shards=8, timeout=dict(quick=400, thorough=2400), shrinktime="60s"),
        dict(name="regress", pkg="c01", run="TestRegress"),
        dict(name="pairs", pkg="c01", run="TestPairs", shards=dict(quick=2, thorough=4)),
        dict(name="sets", pkg="c01", run="TestSets", checks=dict(quick=24000, thorough=300000), shards=dict(quick=8, thorough=16), timeout=dict(quick=300, thorough=1800)),
        dict(name="histories", pkg="c01", run="TestHistories", checks=dict(quick=60000, thorough=400000), shards=dict(quick=4, thorough=16), timeout=dict(quick=300, thorough=1800)),
        dict(name="e2e", pkg="c01", run="TestE2E", checks=dict(quick=640, thorough=6000), shards=16, timeout=dict(quick=400, thorough=2400), shrinktime="90s"),
        dict(name="digest", pkg="c01", run="TestDigestCollisions", timeout=600),
        dict(name="wide", pkg="c01", run="TestWide", checks=dict(quick=640, thorough=8000), shards=dict(quick=4, thorough=16), timeout=dict(quick=300, thorough=1800)),
    ],
)

_L3_NOTE = ("Trusted: Go toolchain, rapid, the harness (internal/sim: fake connections with virtual deadlines, an MQTT codec independent of the "
            "broker's, the quiescence detector, the wrappers around the node's log / registry / in-flight table) and the verif hook counters. "
            "The broker node is assembled from the real constructors exactly as cmd/wasp/main.go does. A verdict is only given at detected "
            "quiescence; a wall-clock budget overrun gives no verdict for that case: up to 3 such cases per process are tolerated and counted "
            "(inconclusive_cases), more end in exit 2. A failing case is re-executed and only reported when it fails again.")

PROPS["C02"] = dict(
    level="exploration",
    manifest=dict(
        text=("End-to-end on one complete in-process broker node with a real commit log on disk: generated publish sequences (1-60 messages, QoS "
              "0/1/2 mix, payload sizes 0/8/100/70000, sizes that put the delivered packet on a boundary of the remaining-length encoding (127/128, 16383/16384, 2097151/2097152, each -1/0/+1) and, rarely, 1-4 MiB; whenever the broker hands a connection less than a whole packet in one write the client asks for something (PINGREQ) before the rest follows, so that the answer of another broker goroutine lands in between if nothing prevents it; 1-3 publishers, 1-3 subscribers with matching and non-matching filters) starting from an "
              "empty log or one pre-filled to just below/above the batch (10), segment (500) and truncation (1500/2000/3000) boundaries, with or "
              "without a consumer offset file; plus fixed long histories (1100, thorough 2300 messages) that cross those boundaries by themselves. "
              "Oracle: every publish acknowledged to its publisher reached every subscriber with a matching filter, topic and payload intact; nothing "
              "arrives that was not published or does not match; the log's Get(o) agrees with what Consume handed for o. Publishes carry DUP and RETAIN "
              "flags at random. Back-pressure run: a subscriber stays connected but stops reading for 12 s (thorough 40 s) of real time while 40/90 QoS 1 "
              "publishes are accepted and acknowledged; when it reads again every acknowledged message must reach it and the other subscriber."),
        note=_L3_NOTE,
        technique="stateful property-based testing of the running broker with a delivery-set oracle (rapid generation + shrinking)",
    ),
    rule=("a case = (prefill size, consumer offset file, subscribers, publishers, message list, burst size). Non-trivial = the case's log offsets "
          "include 0 or cross a multiple of 10 / 500 / a truncation point, or there are >= 2 subscribers. Distinct = distinct case."),
    assumptions=["subscribers stay connected and auto-acknowledge", "client packet ids (20000+) are kept apart from the broker's outbound ids (the broker shares one in-flight id space per session for both directions)",
                 "delivery order is not checked (not stated)"],
    runs=[
        # a publish from another connection sent (and acknowledged) at the very moment the subscriber holds its SUBACK must reach it
        dict(name="suback", pkg="c02", run="TestPublishAtSubAck", checks=dict(quick=96, thorough=1600), shards=8, timeout=dict(quick=400, thorough=2400), shrinktime="60s"),
        dict(name="regress", pkg="c02", run="TestRegress", timeout=300),
        dict(name="long", pkg="c02", run="TestLong", timeout=dict(quick=300, thorough=900)),
        dict(name="random", pkg="c02", run="TestRandom", checks=dict(quick=960, thorough=8000), shards=dict(quick=16, thorough=16),
             timeout=dict(quick=400, thorough=2400), shrinktime="90s"),
        dict(name="stalled", pkg="c02", run="TestStalledSubscriber", shards=2, timeout=dict(quick=300, thorough=900)),
        # recipients of a topic must not depend on a digest of its name (package c01)
        dict(name="digest", pkg="c01", run="TestDigestCollisions", timeout=600),
    ],
)

PROPS["C11"] = dict(
    level="exploration",
    manifest=dict(
        text=("Scripted sessions on 1-3 complete in-process broker nodes with virtual connection deadlines: generated scripts mix connect (keep-alive "
              "1..65535 s, optional will), subscribe/unsubscribe, publish, PINGREQ, idle periods of 0.05-0.9 (within) and 1.1-3 (beyond) times the "
              "allowance at any point including right after CONNACK, and the termination causes DISCONNECT, connection loss, protocol error "
              "(second CONNECT, reserved packet types), displacement by a newer session and failure of the hosting node; a second generator "
              "delivers the gossip of 2-3 nodes message by message in a generated order (state judged at the deliver-everything points). After EVERY step, at quiescence with all gossip delivered: "
              "sessions that gave no cause are open, answered, listed everywhere and registered; ended sessions had their connection closed by the "
              "broker, are listed nowhere, own no subscription anywhere, are gone from the registry and receive nothing published afterwards; every "
              "listed subscription belongs to a listed session on the node it names."),
        note=_L3_NOTE + " Keep-alive 0 is outside the domain (the decoder library turns it into 30). Displacement by a newer session is C12's subject.",
        technique="stateful property-based testing of the running cluster against a session-lifecycle model (rapid generation + shrinking)",
    ),
    rule=("a case = node count, client count, step list. Non-trivial = a session that had subscribed ends by a cause other than DISCONNECT, or a "
          "'within' idle longer than 3 s directly follows a CONNECT. Distinct = distinct case."),
    assumptions=["idle steps are nudged >= 500 ms away from any session's allowance boundary", "all gossip is delivered before the state is judged",
                 "manual-gossip scripts: broadcasts are delivered one by one in a generated order; a failed node's broadcasts that were not delivered before the survivors were told of the failure are lost (memberlist declares a node dead only after seconds of silence)",
                 "a displaced session lingering until its next keep-alive exchange (allowed by C12) is exempt from the subscription-belongs-to-a-listed-session invariant until it has ended",
                 "node failure = NotifyGossipLeave on the survivors; the check waits (real time, up to 15 s) for the delayed record cleanup"],
    runs=[
        # late and repeated QoS 2 packets (PUBREL after the broker gave up, PUBREL / PUBCOMP twice, stray PUBACK / PUBREC) do not end a session
        dict(name="lateqos2", pkg="c11", run="TestLateQoS2Packets", checks=dict(quick=96, thorough=1600), shards=8, timeout=dict(quick=400, thorough=2400), shrinktime="60s"),
        # an announcement that arrives after the removal on a filter that 0-300 (thorough 1100) other sessions have used and left since
        dict(name="late", pkg="c11", run="TestLateAnnouncement", shards=4, timeout=600),
        dict(name="regress", pkg="c11", run="TestRegress", timeout=300),
        dict(name="random", pkg="c11", run="TestRandom", checks=dict(quick=1280, thorough=12000), shards=16, timeout=dict(quick=400, thorough=2400), shrinktime="90s"),
        dict(name="nodefail", pkg="c11", run="TestNodeFailure", checks=dict(quick=48, thorough=800), shards=16, timeout=dict(quick=400, thorough=2400), shrinktime="120s"),
        dict(name="gossip", pkg="c11", run="TestGossipSchedules", checks=dict(quick=320, thorough=6000), shards=16, timeout=dict(quick=400, thorough=2400), shrinktime="120s"),
        dict(name="quickrestart", pkg="c11", run="TestQuickRestart", checks=dict(quick=48, thorough=480), shards=16, timeout=dict(quick=400, thorough=2400), shrinktime="60s"),
    ],
)

PROPS["C13"] = dict(
    level="exploration",
    manifest=dict(
        text=("A session with a generated will (topic, payload, QoS 0-2, retain) on one of 1-3 in-process nodes and 1-4 watchers with matching / "
              "non-matching filters in the same or another mount point, placed on any node; termination by connection loss, keep-alive expiry, "
              "protocol error, DISCONNECT, hosting-node failure, and the two-step endings DISCONNECT-then-loss / DISCONNECT-then-node-failure / "
              "loss-then-node-failure. Oracle: the multiset of PUBLISH packets read by every client equals the model's (the will once per matching "
              "subscription of the same mount point, un-prefixed topic, never after DISCONNECT, never twice, never to the dying session itself), "
              "including the retained copy for a later subscriber."),
        note=_L3_NOTE,
        technique="stateful property-based testing of the running cluster with an expected-delivery multiset oracle",
    ),
    rule=("a case = placement + will + watcher subscriptions + cause. Non-trivial = hosting-node failure, or watchers on >= 2 nodes. Distinct = distinct case."),
    assumptions=["gossip fully delivered before the cause", "a retained will is expected to be replayed to a later subscriber like any retained publish"],
    runs=[
        # the dying client falls silent in the middle of a PUBLISH / SUBSCRIBE / UNSUBSCRIBE and stays connected: after its allowance the will is published once, nothing of the packet has an effect
        dict(name="silent", pkg="c13", run="TestSilentMidPacket", checks=dict(quick=64, thorough=1600), shards=8, timeout=dict(quick=400, thorough=2400), shrinktime="60s"),
        # a session accepted during an outage of the broker links, learnt by the survivors through push/pull only, then its node fails
        dict(name="outage", pkg="c13", run="TestWillAfterOutage", timeout=600),
        dict(name="regress", pkg="c13", run="TestRegress", timeout=300),
        dict(name="random", pkg="c13", run="TestRandom", checks=dict(quick=960, thorough=8000), shards=16, timeout=dict(quick=400, thorough=2400), shrinktime="90s"),
        dict(name="nodefail", pkg="c13", run="TestNodeFailure", checks=dict(quick=48, thorough=800), shards=16, timeout=dict(quick=400, thorough=2400), shrinktime="120s"),
        dict(name="transports", pkg="c13", run="TestTransports", shards=7, timeout=dict(quick=300, thorough=900)),
    ],
)

PROPS["C12"] = dict(
    level="exploration",
    manifest=dict(
        text=("Chains of 2-4 connections sharing one client id on 1-3 in-process nodes; the older sessions' PINGREQ / SUBSCRIBE / DISCONNECT / close "
              "events and every single gossip delivery are interleaved in a generated order (gossip is delivered by hand, message by message, "
              "destination by destination; the property's proviso is built in: a node accepting connection k+1 has been delivered the announcement "
              "of session k and nothing else). Oracle: every CONNECT is accepted; with all gossip delivered every node resolves the id to the newest "
              "session (asked repeatedly, the lookup walks a Go map); each displaced session gets no PINGRESP at its next PINGREQ and is closed; "
              "afterwards the newest session's record and subscriptions are still listed everywhere, it receives a probe publish exactly once and "
              "the displaced connections receive nothing. Second run (pipelined): 10-40 takeovers per case in which the displacing client writes "
              "CONNECT and PINGREQ (or SUBSCRIBE) back to back without waiting for CONNACK, on a node that knows 0 / 2000 / 20000 unrelated session "
              "records (same or other node): CONNACK and every PINGRESP/SUBACK must arrive, the identifier must resolve to the new session only, "
              "the displaced session is refused at its next PINGREQ. Third run (stale): all placements of chains of 3-4 (thorough 5) connections over "
              "2-3 nodes; the newest session's host is handed, late and before any removal, the announcement of every earlier session, and the newest "
              "session pings after each: it must stay served and end up as the session every node resolves the identifier to."),
        note=_L3_NOTE + " Failures that depend on Go map iteration order are re-run (up to 4 times) before they are reported; --replay runs the saved case 6 times.",
        technique="stateful property-based testing with a harness-owned gossip schedule (rapid generation + shrinking)",
    ),
    rule=("a case = node count + interleaved step list (connect / ping / sub / disconnect / close per connection, single gossip deliveries, "
          "deliver-all). Non-trivial = an older session's event or teardown happens after the newest session subscribed. Distinct = distinct case."),
    assumptions=["proviso of the property: the accepting node knows the previous session", "judged only with all gossip delivered (quiescence)"],
    runs=[
        # at the very moment the new connection holds its CONNACK the earlier session pings: not answered, closed; chains of 1-4 takeovers
        dict(name="connack", pkg="c12", run="TestOldSessionAtConnAck", checks=dict(quick=96, thorough=1600), shards=8, timeout=dict(quick=400, thorough=2400), shrinktime="60s"),
        # 2-24 connections presenting one identifier at the same moment on a node knowing 0 / 2000 / 20000 sessions: all established, exactly one served after their pings
        dict(name="simultaneous", pkg="c12", run="TestSimultaneousConnects", checks=dict(quick=64, thorough=1600), shards=8, timeout=dict(quick=400, thorough=2400), shrinktime="60s"),
        # takeover during an outage of the broker links; the removal arrives by push/pull 0-28 h later (tombstones must not be forgotten)
        dict(name="outage", pkg="c12", run="TestOutage", timeout=600),
        dict(name="regress", pkg="c12", run="TestRegress", timeout=300),
        dict(name="random", pkg="c12", run="TestRandom", checks=dict(quick=1600, thorough=16000), shards=16, timeout=dict(quick=400, thorough=2400), shrinktime="90s"),
        dict(name="stale", pkg="c12", run="TestStaleAnnouncement", shards=16, timeout=dict(quick=400, thorough=2400)),
        dict(name="pipelined", pkg="c12", run="TestPipelinedTakeover", checks=dict(quick=160, thorough=1600), shards=16, timeout=dict(quick=400, thorough=2400), shrinktime="60s"),
    ],
)

PROPS["C17"] = dict(
    level="exploration",
    manifest=dict(
        text=("2-3 mount points (tenants) with 2-6 clients on 1-2 in-process nodes; client ids are shared across tenants; filters include bare '#', "
              "'+/#', '+/x' and filters that spell another tenant's name; publishes (plain and retained, including clears), wills with abrupt close, "
              "DISCONNECT, and (separate run) failure of a node. Oracle: the expected-delivery model is evaluated per mount point on the un-prefixed "
              "strings - every client must have read exactly that multiset of (topic, payload, retain flag) after every step, so cross-tenant leaks, "
              "missing prefixes and wrongly stripped topics all show; sessions of one tenant stay alive, listed and answering when another tenant "
              "connects with the same client id."),
        note=_L3_NOTE + " Mount-point names contain no '/', '+', '#'. The mount point is assigned by a harness AuthenticationHandler (username = tenant).",
        technique="stateful property-based testing of the running cluster with a per-tenant expected-delivery multiset oracle",
    ),
    rule=("a case = nodes, clients, step list. Non-trivial = the same client id is used in >= 2 mount points and >= 2 mount points have subscribers. "
          "Distinct = distinct case."),
    assumptions=["mount point = username via the harness authentication handler", "within one tenant client ids are distinct (takeover inside a tenant is C12's subject)"],
    runs=[
        dict(name="regress", pkg="c17", run="TestRegress", timeout=300),
        dict(name="random", pkg="c17", run="TestRandom", checks=dict(quick=1280, thorough=12000), shards=16, timeout=dict(quick=400, thorough=2400), shrinktime="90s"),
        dict(name="nodefail", pkg="c17", run="TestNodeFailure", checks=dict(quick=32, thorough=600), shards=16, timeout=dict(quick=400, thorough=2400), shrinktime="120s"),
        dict(name="digest", pkg="c17", run="TestDigestCollisionsAcrossTenants", timeout=600),
    ],
)

PROPS["C14"] = dict(
    level="fault_enumeration",
    manifest=dict(
        text=("2-3 complete in-process nodes joined by the real ScheduleMessage RPC over in-memory gRPC; generated placements of 1-5 subscribers "
              "(filters/topics from the C01 grammar) and of the publisher; hand-delivered gossip decides which subscriptions the publishing node "
              "knows. For every generated publish EVERY subset of the remote nodes is made unreachable once (exhaustive over fault subsets inside "
              "each generated configuration). Oracle per publish: exactly one append on each reachable node hosting a matching subscription known to "
              "the publisher's node, none elsewhere (read from recording wrappers around the real logs); every local matching subscription on a "
              "reached node gets exactly one copy, nobody else any; PUBACK iff every node of the destination set was reached. Further fault modes per "
              "publish: every non-empty subset of remotes executes the call but its reply is lost (caller sees gRPC Unavailable: stored once, no PUBACK, "
              "nothing twice); one remote is slow (its append takes 0.3 / 2.6 s of real time and succeeds: everything still arrives everywhere). "
              "Unreachable peers answer with the production transport's own error values (membership.ErrPeerNotFound / ErrPeerDisabled, plain and wrapped)."),
        note=_L3_NOTE,
        technique="property-based generation of configurations with exhaustive enumeration of unreachable-destination subsets per publish",
    ),
    rule=("a case = nodes, publisher node, subscribers (node, filter, QoS, known-to-publisher?), publishes each repeated for all 2^r subsets of "
          "unreachable remote nodes. Non-trivial = the destination set contains a remote node. Distinct = distinct case."),
    assumptions=["unreachable = the transport's Call returns an error without invoking the RPC", "QoS 0 publishes carry no acknowledgement to judge"],
    runs=[
        # a destination whose write panics (child processes; package c05)
        dict(name="panic", pkg="c05", run="TestPanickingWrite$", timeout=400),
        # a destination that stalls for seconds and then refuses is a failed destination (package c05)
        dict(name="hang", pkg="c05", run="TestHangingRemote", timeout=400),
        dict(name="regress", pkg="c14", run="TestRegress", timeout=300),
        dict(name="random", pkg="c14", run="TestRandom", checks=dict(quick=800, thorough=6000), shards=16, timeout=dict(quick=400, thorough=2400), shrinktime="90s"),
    ],
)

PROPS["C05"] = dict(
    level="fault_enumeration",
    manifest=dict(
        text=("1-3 in-process nodes hosting subscribers; 1-2 clients on node 0 send generated sequences of PUBLISH (QoS 0/1/2, identifiers from a "
              "pool of 3 so that they repeat, DUP or not), PUBREL (pending, unknown, already completed) and handshake timeouts (sweep of the "
              "in-flight table). Every write-producing step carries a fault plan: a subset of nodes whose write fails, as 'peer unreachable', "
              "'remote log refuses' or (local node) 'local log refuses'. A fixed part enumerates all 8 failure subsets x modes on 3 destinations. "
              "Oracle (recording log wrappers on every node + packets read by the client): a payload is stored exactly once on every destination "
              "whose write was not failed and nowhere else; PUBACK/PUBCOMP exactly once iff no destination write failed; a QoS 2 payload is stored "
              "nowhere before its PUBREL, once after it, never for a PUBREL without pending handshake, never after the PUBREC expired, never twice."),
        note=_L3_NOTE + " A repeated QoS 2 PUBLISH while the handshake is pending makes the broker end the session; the check only demands that nothing is forwarded.",
        technique="stateful property-based testing with injected write failures (random sequences + exhaustive failure subsets on a fixed topology)",
    ),
    rule=("a case = nodes, subscribers, client count, step list with per-step fault plan. Non-trivial = a fault hits a destination of a QoS>0 "
          "publish/PUBREL, or an identifier is repeated while pending, or a PUBREL arrives without pending handshake, or pending handshakes expire. "
          "Distinct = distinct case."),
    assumptions=["all subscriptions are known cluster-wide before the publishes (gossip delivered)", "acknowledgement ordering is judged at quiescence: acked => every destination write succeeded"],
    runs=[
        # a destination that stalls for 6.5 / 9 s of real time and then refuses the write (whatever patience the broker has is real time)
        dict(name="hang", pkg="c05", run="TestHangingRemote", timeout=400),
        dict(name="regress", pkg="c05", run="TestRegress", timeout=300),
        dict(name="subsets", pkg="c05", run="TestFaultSubsets", timeout=400),
        # a write that fails by panicking (child processes: the unchanged broker dies, which acknowledges nothing; one that survives must not acknowledge)
        dict(name="panic", pkg="c05", run="TestPanickingWrite$", timeout=400),
        dict(name="panicrandom", pkg="c05", run="TestPanickingWriteRandom", checks=dict(quick=96, thorough=1600), shards=8, timeout=dict(quick=400, thorough=2400), shrinktime="60s"),
        dict(name="random", pkg="c05", run="TestRandom", checks=dict(quick=960, thorough=8000), shards=16, timeout=dict(quick=400, thorough=2400), shrinktime="90s"),
    ],
)

PROPS["C03"] = dict(
    level="exploration",
    manifest=dict(
        text=("One in-process node; 1-3 subscriber sessions (QoS 1 or 2) whose acknowledgements are scripted; the in-flight table sits behind a "
              "harness wrapper, so the case decides when a sweep happens: before every pending deadline (nothing may be re-sent) or after every "
              "pending deadline (every open exchange must be re-sent exactly once: the same PUBLISH - type, identifier, topic, payload, QoS - or "
              "the PUBREL). Generated scripts: send, acknowledge the k-th open exchange or an unknown identifier with PUBACK/PUBREC/PUBREL/PUBCOMP "
              "(right and wrong types), sweeps, session end. Oracle: model of every open exchange (identifier, phase); identifiers on the wire are "
              "non-zero and distinct among open exchanges; at the end all sessions are ended, everything expires and the writer's allocator is read "
              "out: every identifier 1..65535 must be free again. One real-time case lets the broker's own 1 s ticker drive the sweep; three more "
              "(run backlog) do so while the writer's delivery loop is blocked in a write to another, stalled QoS 0 session with jobs queued behind "
              "it: the healthy session's PUBLISH / PUBREL must still be sent again (twice within 25 s). Messages are optionally padded so that the "
              "delivered PUBLISH has a remaining length of exactly 127/128/129/16383/16384/16385."),
        note=_L3_NOTE + " The allocator is read through the verif hook wasp.VerifWriterMIDPool.",
        technique="stateful property-based testing with harness-owned expiry sweeps against a per-exchange model",
    ),
    rule=("a case = subscriber QoS list + step list (send / ack / early sweep / late sweep / end). Non-trivial = at least one retransmission was "
          "observed and (a QoS 2 exchange reached PUBREL or an acknowledgement of the wrong type / unknown identifier was injected). Distinct = distinct case."),
    assumptions=["sweeps are either before all pending deadlines or after all of them (deadlines of one case differ by milliseconds only; per-entry timing is C04's subject)",
                 "ticker wiring: a retransmission must appear within 30 s of real time (nominal 3-4 s); under a backlog two within 25 s (nominal 7-8 s)"],
    runs=[
        # a retransmission whose write fails (nothing arrives, the connection stays usable) leaves the exchange open: sent again at the next deadline
        dict(name="writefault", pkg="c03", run="TestTransientWriteFault", checks=dict(quick=64, thorough=1600), shards=8, timeout=dict(quick=400, thorough=2400), shrinktime="60s"),
        # subscribers that answer every packet the instant they hold it (hook before the broker's write returns): after all deadlines nothing is re-sent, ids free
        dict(name="ackatreceipt", pkg="c03", run="TestAckAtReceipt", checks=dict(quick=64, thorough=1600), shards=8, timeout=dict(quick=400, thorough=2400), shrinktime="60s"),
        dict(name="regress", pkg="c03", run="TestRegress", timeout=300),
        dict(name="ticker", pkg="c03", run="TestTickerWiring", timeout=300),
        # the broker's own ticker must keep sweeping while the delivery loop is blocked on another session (real time, ~8 s)
        dict(name="backlog", pkg="c03", run="TestTickerUnderBacklog", timeout=300),
        dict(name="random", pkg="c03", run="TestRandom", checks=dict(quick=640, thorough=6000), shards=16, timeout=dict(quick=400, thorough=2400), shrinktime="90s"),
        # a table that refuses a re-registration loses the retransmission (package c04)
        dict(name="manyentries", pkg="c04", run="TestManyEntries", timeout=600),
    ],
)

PROPS["C07"] = dict(
    level="exploration",
    manifest=dict(
        text=("(1) TopicsState: exhaustive histories up to length 3/4 over {set p1, set p2, clear} x {a, a/b, a/b/c, b} and random histories of 1-14 "
              "steps over 10 topics with shared prefixes and empty levels; after EVERY step all 186 filters of up to 3 levels over {a,b,c,empty,+,#} "
              "are queried on the writing node and on a replica fed by its broadcasts, against a map model and the reference matcher. (2) End to end "
              "on 1-2 in-process nodes: retained publishes (QoS 0-2), clears, plain publishes, subscribe / re-subscribe / unsubscribe by new and "
              "existing clients; every client's PUBLISH multiset - topic, payload AND retain flag - must equal the model after every step (retained "
              "copy flagged, exactly one per matching topic per SUBSCRIBE; live copy unflagged; nothing after a clear; other topics untouched). "
              "(3) Two or three nodes writing the same two topics with the same few payloads (repeats are frequent) under one strictly increasing "
              "virtual clock, broadcasts held back until generated flush points: whenever everything has been delivered every node must replay, "
              "per topic, the payload of the latest Set, or nothing after a clear; exhaustive over all histories of 2-4 (thorough 6) operations "
              "from two nodes on one topic with all gossip held to the end."),
        note=_L3_NOTE,
        technique="model-based property testing (exhaustive small scope + rapid) at state level, stateful property-based testing end to end",
    ),
    rule=("state cases: Set/Delete histories; e2e cases: node/client counts + step list. Non-trivial: state = a present topic is cleared or two "
          "present topics are prefix-related; e2e = a subscribe happens after a clear, or while prefix-related topics are retained. Distinct = distinct case."),
    assumptions=["one SUBSCRIBE replays the retained messages once per filter it carries", "gossip delivered before subscribing on another node"],
    runs=[
        # at the very moment a publisher holds the acknowledgement of a retained publish / clear another client subscribes: it gets the new value / nothing older
        dict(name="puback", pkg="c07", run="TestSubscribeAtPubAck", checks=dict(quick=240, thorough=4000), shards=8, timeout=dict(quick=400, thorough=2400), shrinktime="60s"),
        # a node that has held 70 000 / 300 000 topic names (most cleared again) still retains a publish on a new name; checkpoints around powers of 2 and 10
        dict(name="lifetime", pkg="c07", run="TestLifetime", timeout=dict(quick=400, thorough=2400)),
        dict(name="regress", pkg="c07", run="TestRegress", timeout=300),
        dict(name="stateenum", pkg="c07", run="TestStateEnum", shards=dict(quick=4, thorough=16), timeout=dict(quick=300, thorough=1800)),
        dict(name="state", pkg="c07", run="TestState", checks=dict(quick=10000, thorough=100000), shards=dict(quick=8, thorough=16), timeout=dict(quick=300, thorough=1800)),
        dict(name="e2e", pkg="c07", run="TestE2E", checks=dict(quick=640, thorough=6000), shards=16, timeout=dict(quick=400, thorough=2400), shrinktime="90s"),
        dict(name="writers", pkg="c07", run="TestTwoWriters", checks=dict(quick=20000, thorough=200000), shards=dict(quick=4, thorough=16), timeout=dict(quick=300, thorough=1800)),
        dict(name="writersenum", pkg="c07", run="TestTwoWritersEnum", shards=dict(quick=2, thorough=16), timeout=dict(quick=300, thorough=1800)),
        dict(name="manyretained", pkg="c07", run="TestManyRetained", checks=dict(quick=64, thorough=640), shards=16, timeout=dict(quick=400, thorough=2400), shrinktime="60s"),
        dict(name="race", pkg="c07", run="TestSubscribeRacesRetainedPublish", shards=4, timeout=dict(quick=400, thorough=2400)),
    ],
)

PROPS["C16"] = dict(
    level="exploration",
    manifest=dict(
        text=("(1) auth.FileHandler on generated credential files (0-6 entries, 2- and 3-field lines mixed, any order, empty values) and "
              "auth.StaticHandler: for every table every present pair, swapped fields, right user / wrong password, wrong user / right password, "
              "empty values and extra random candidates are tried; accepted <=> (username, sha256(password)) is a row, mount point = third field or "
              "the default one. (2) The store wired into a running in-process node: CONNECT attempts with a will; accepted => CONNACK 0 and a session "
              "record in that entry's mount point; refused => CONNACK 4/5, and although the refused client then sends SUBSCRIBE and a retained "
              "PUBLISH and drops the connection, no session record, subscription, registry entry, retained message, publish or will appears."),
        note=_L3_NOTE + " The file's second column is the lowercase hex SHA-256 of the password; usernames are distinct within a file.",
        technique="property-based testing against a table oracle (stores) and stateful testing of the CONNECT path",
    ),
    rule=("store cases: table + candidates (all systematic candidates of every entry are tried, counter candidates_checked); e2e cases: store + "
          "attempt list. Non-trivial: store = table with >= 3 entries; e2e = at least one accepted and one refused attempt. Distinct = distinct case."),
    assumptions=["usernames and passwords from [a-z0-9_]{0,6} (no csv quoting)", "distinct usernames per file"],
    runs=[
        dict(name="regress", pkg="c16", run="TestRegress", timeout=300),
        dict(name="file", pkg="c16", run="TestFile", checks=dict(quick=20000, thorough=400000), shards=dict(quick=8, thorough=16), timeout=dict(quick=300, thorough=1800)),
        dict(name="static", pkg="c16", run="TestStatic", checks=dict(quick=4000, thorough=100000), shards=dict(quick=2, thorough=8), timeout=dict(quick=300, thorough=1800)),
        dict(name="e2e", pkg="c16", run="TestE2E", checks=dict(quick=640, thorough=6000), shards=16, timeout=dict(quick=400, thorough=2400), shrinktime="90s"),
        dict(name="concurrent", pkg="c16", run="TestConcurrentAuth", shards=dict(quick=2, thorough=8), timeout=dict(quick=300, thorough=1800)),
    ],
)

PROPS["C18"] = dict(
    level="exploration",
    manifest=dict(
        text=("A fresh in-process broker node per case; a witness client connected and subscribed before anything hostile happens; 1-3 hostile "
              "connections write generated byte streams: valid packet sequences (CONNECT, SUBSCRIBE, PUBLISH QoS 0-2, acknowledgements, PINGREQ, "
              "UNSUBSCRIBE, DISCONNECT, broker-only packets, in any order, before or after CONNECT) with 0-4 structure-aware mutations (type and "
              "flag nibbles incl. QoS 3, hostile remaining lengths up to a 5th length byte, corrupted 2-byte length prefixes / identifiers, "
              "shortened bodies, byte flips, duplicated / dropped packets, empty topic lists, identifier 0, garbage, truncation at any offset), "
              "written in arbitrary chunks round-robin over the connections and optionally closed mid-packet; plus a list of hostile constants, and EVERY sequence of up to 3 (thorough 4) well-formed "
              "packets from {PUBLISH QoS 1, PUBLISH QoS 2, PUBACK, PUBREC, PUBREL, PUBCOMP} with one identifier after CONNECT+SUBSCRIBE "
              "(acknowledgements of the wrong type at the wrong time). "
              "Oracle inside the run: the process survives (a panic in any broker goroutine kills the test binary; the driver promotes the running "
              "case), the witness connection is still open and completes SUBSCRIBE->SUBACK, PINGREQ->PINGRESP, QoS 1 PUBLISH->PUBACK and receives "
              "its own publish, and a client connecting afterwards does the same. Thorough adds coverage-guided native fuzzing (go test -fuzz) of "
              "the same target with the oracle inside."),
        note=_L3_NOTE + " Resource exhaustion (256 MiB bodies announced by a hostile remaining length, slow-loris on the 20 setup workers, subscribers that never read) is outside the byte-stream quantifier and is not judged.",
        technique="structure-aware property-based fuzzing (rapid) with a liveness oracle; coverage-guided native fuzzing in the thorough tier",
    ),
    rule=("a case = 1-3 hostile streams (hex chunks + close flag). Non-trivial = a stream that starts with a CONNECT packet and contains at least one "
          "mutation. Distinct = distinct case. Native fuzz executions are counted from the fuzzer's own 'execs' figure and added to evaluations."),
    assumptions=["hostile client ids and topics are disjoint from the witnesses' (a hostile CONNECT with the witness's client id would be a legitimate takeover)",
                 "liveness is judged at detected quiescence; a slow machine yields 'inconclusive'"],
    runs=[
        # a client that stops reading, floods the publish workers and then sends a packet that needs one (real-time 800 ms hand-over budget)
        dict(name="pressure", pkg="c18", run="TestBackPressure", checks=dict(quick=96, thorough=1600), shards=16, timeout=dict(quick=400, thorough=2400), shrinktime="60s"),
        dict(name="regress", pkg="c18", run="TestRegress", timeout=300),
        dict(name="constants", pkg="c18", run="TestConstants", timeout=400, mem_gb=48),
        dict(name="states", pkg="c18", run="TestProtocolStates", shards=16, timeout=dict(quick=400, thorough=2400)),
        dict(name="random", pkg="c18", run="TestRandom", checks=dict(quick=800, thorough=10000), shards=16, timeout=dict(quick=400, thorough=2400), shrinktime="60s", mem_gb=48),
        dict(name="nativefuzz", pkg="c18", fuzz="FuzzClientBytes", run="FuzzClientBytes", fuzztime=dict(thorough=150), parallel=8, tiers=("thorough",)),
    ],
)

PROPS["C15"] = dict(
    level="fault_enumeration",
    manifest=dict(
        text=("The consuming side runs in a real child process (the test binary re-executed) that opens the real message log, runs the real "
              "SchedulePublishes on it and appends messages concurrently; it is killed with SIGKILL - from inside, as the first or the last thing "
              "that happens around the hand-over of offset k (the latter is, for the offset file, the same as dying between the callback's return "
              "and the offset write), or by the parent a generated delay after the appends are done - or stopped gracefully when idle, over 1-5 "
              "rounds on the same data directory, with logs sized to straddle batch (10), segment (500) and truncation (1500/2000) boundaries. "
              "For logs of up to 12 (thorough 30) messages the kill point is enumerated over EVERY offset, entering and leaving. Oracle on the "
              "child's unbuffered event log: offsets handed consecutively within an incarnation with the payload that was appended there; the "
              "first offset ever handed is 0; a restart resumes no later than the first offset not completely handed and no earlier than the "
              "last completed one (minus one for parent-timed kills); after a final idle incarnation every appended offset has been handed. "
              "Large-backlog run: the scheduler is stuck on an early message (crash mode stall:k) while 560 (thorough up to 2100) messages of "
              "40-300 KiB each (80-150 MiB, several segments) are appended, the process is killed, and the next incarnation must be handed all of them."),
        note=("Trusted: Go toolchain, rapid, the child harness in harness/c15 (its log wrapper records E/X lines with one write(2) each; self-kills "
              "take the mutex the appender holds around Append, so no append is ever cut short). Power-loss durability (page cache) is outside the statement."),
        technique="crash-point enumeration (exhaustive for small logs) + property-based generation of crash/restart rounds with real SIGKILL",
    ),
    rule=("a case = list of rounds (messages to append, crash point). Non-trivial = a crash point strictly inside the log, or a log longer than 1500. "
          "Distinct = distinct case. Counter child_processes = real child processes started."),
    assumptions=["resume is inclusive by design (the offset file stores the last completed offset): replaying that one message again is allowed",
                 "a killed incarnation may have appended fewer messages than asked; the harness counts the appends the child recorded"],
    runs=[
        # logs growing past 10 000 (thorough 100 000) entries, the consumer killed before / at / after the boundary with a backlog ahead, restarted
        dict(name="longlogs", pkg="c15", run="TestLongLogs", timeout=dict(quick=400, thorough=2400)),
        # crash images: every state-file content observed through the file system while a consumer runs at full speed is restarted on
        dict(name="images", pkg="c15", run="TestCrashImages", timeout=dict(quick=300, thorough=1800)),
        dict(name="regress", pkg="c15", run="TestRegress", timeout=300),
        dict(name="enum", pkg="c15", run="TestEnumSmall", shards=dict(quick=8, thorough=16), timeout=dict(quick=400, thorough=2400)),
        dict(name="random", pkg="c15", run="TestRandom", checks=dict(quick=800, thorough=3000), shards=16, timeout=dict(quick=400, thorough=2400), shrinktime="60s"),
        dict(name="backlog", pkg="c15", run="TestLargeBacklog", timeout=dict(quick=400, thorough=1800)),
    ],
)

PROPS["C20"] = dict(
    level="exploration",
    manifest=dict(
        text=("Randomized concurrent stress under the Go race detector, two layers. (1) Generated concurrent programs (2-8 goroutines x 20-200 "
              "operations, GOMAXPROCS 2/4/16, yield injection, each program run 3 (thorough 12) times) on every structure the property lists: session "
              "registry, identifier pool, timeout list, retained trie, subscription trie (incl. Dump/Load), replicated state (local mutators + "
              "NotifyMsg + LocalState/MergeRemoteState + readers) and the per-session filter list; every goroutine owns a private key space, so the "
              "post-conditions (all distinct-key effects present, identifiers pairwise distinct while outstanding, every timeout item reported at "
              "most once and exactly once if never deleted) hold for every schedule. The in-flight table's concurrent programs (package c04, "
              "TestConcurrent: no callback twice, every entry resolved exactly once after the final sweep, successful Acks == acknowledge callbacks) run here too. "
              "(2) Whole in-process broker nodes under concurrent load: publishers (QoS 0/1/2), acknowledging subscribers, churning clients "
              "(connect, subscribe, publish, unsubscribe, DISCONNECT or drop, with wills), a gossip pump with full-state exchanges and expiry sweeps "
              "all at once; afterwards: acknowledged => delivered, nothing foreign, departed sessions left no trace. A race report or a panic is a "
              "violation (the program is the replay). (3) Shared-key races with a schedule-independent outcome: two versions of one replicated entry "
              "delivered to a node at the same moment by two goroutines (NotifyMsg / MergeRemoteState) - the node must end with the later version; two "
              "retained publishes (one large, one small, or a clear) on one topic at the same moment - a mirror fed with all of the node's broadcasts, "
              "in both orders, must list what the node lists; tens of thousands of keys per run, goroutines released by a spinning barrier. "
              "Schedules are sampled; absence of races is not shown."),
        note=("Trusted: Go race detector and toolchain, rapid, the harness. Layer 2 runs on an in-memory message log: the commit-log dependency has "
              "unsynchronised reads of its own and is not among the structures the property lists. A race report cannot be shrunk; the whole program is kept."),
        technique="randomized concurrent stress testing of generated programs under the race detector with schedule-independent post-conditions",
    ),
    rule=("struct cases: target structure + per-goroutine op lists; storm cases: node/publisher/subscriber/churn counts and switches. Non-trivial: "
          "struct = >= 2 goroutines operate on the shared instance; storm = >= 3 concurrent actors. Distinct = distinct case. Counter "
          "program_executions = executions incl. repeats."),
    assumptions=["every goroutine writes only its own keys (reads go anywhere)", "publishers cut off by the broker's 800 ms hand-over budget under the race detector are not judged (counted)"],
    runs=[
        dict(name="regress", pkg="c20", run="TestRegress", race=True, timeout=300),
        dict(name="structs", pkg="c20", run="TestStructs", race=True, checks=dict(quick=800, thorough=12000), shards=16, timeout=dict(quick=400, thorough=2400), shrinktime="20s"),
        dict(name="storm", pkg="c20", run="TestStorm", race=True, checks=dict(quick=480, thorough=8000), shards=16, timeout=dict(quick=400, thorough=2400)),
        # the in-flight table's concurrent programs live in the C04 package; they are part of this property too
        dict(name="inflight", pkg="c04", run="TestConcurrent", race=True, checks=dict(quick=1600, thorough=8000), shards=dict(quick=4, thorough=16), timeout=dict(quick=300, thorough=1800)),
        dict(name="hammer", pkg="c04", run="TestHammerOneKey", race=True, shards=dict(quick=2, thorough=8), timeout=dict(quick=300, thorough=1800)),
        dict(name="freshseconds", pkg="c04", run="TestHammerFreshSeconds", shards=dict(quick=2, thorough=8), timeout=dict(quick=300, thorough=1800)),
        dict(name="bigsweep", pkg="c04", run="TestHammerBigSweep", shards=dict(quick=2, thorough=8), timeout=dict(quick=300, thorough=1800)),
        dict(name="manyentries", pkg="c04", run="TestManyEntries", timeout=600),
        # same key from several goroutines, where the outcome is still schedule independent (no race detector: the window is what matters)
        dict(name="sharedkey", pkg="c20", run="TestSharedKey", shards=dict(quick=5, thorough=10), timeout=dict(quick=300, thorough=1800)),
        # identifiers on the wire while sessions vanish under the writer (package c03)
        dict(name="writer", pkg="c03", run="TestRandom", checks=dict(quick=320, thorough=3000), shards=16, timeout=dict(quick=400, thorough=2400), shrinktime="60s"),
    ],
)

# Later additions to the checks (rounds 7 and 8), appended to the manifest text of the property
ADDITIONS = {
    "C01": "Run unsuback: at the very moment a session has received its UNSUBACK (hook on the fake connection) another client publishes and is acknowledged: the publish is not delivered to the session that left (unless a remaining filter matches) and is delivered to a session still subscribed. Sets: filters and topics below a common prefix of 14…260 levels.",
    "C13": "Run silent: the dying session sends the first 1..n-1 bytes of a PUBLISH, SUBSCRIBE or UNSUBSCRIBE and then nothing, without closing; when its keep-alive allowance has passed (virtual clock) the connection is closed, the will reaches the watchers on 1-2 nodes exactly once (retained if asked), and nothing of the unfinished packet has any effect. Generator: 1-3 further sessions on the dying session's node with byte-identical wills (each session's will is its own).",
    "C14": "Run panic (package c05): a destination whose write panics; the unchanged broker dies (nothing acknowledged), a survivor must not acknowledge. The judged publishes also carry the RETAIN flag and zero-length payloads.",
    "C02": "Run suback: a publish from another connection sent, and acknowledged, at the very moment the subscriber has received its SUBACK (hook on the fake connection) must reach that subscriber (1-3 filters, 0-60 retained messages replayed in between, QoS 1/2).",
    "C03": "Run ackatreceipt: 1-3 subscribers answer every PUBLISH / PUBREL the instant they hold it, from a hook that runs before the broker's write of that packet returns (and waits until the broker has consumed the answer); when afterwards every deadline passes twice nothing is sent again, every message was received once and all 65535 identifiers are free. Run writefault: 0-3 retransmissions of an unanswered QoS 1 PUBLISH / QoS 2 PUBLISH / PUBREL fail in Write (transient fault injected on the fake connection, which stays usable); the exchange stays open and is sent again at the next deadline, completes when answered, and its identifier is released.",
    "C04": "Run overlap: 1728 enumerated scenarios of a second sweep that overlaps the callbacks of a running one (from another goroutine or from inside a callback) with an entry registered in between; the second sweep must expire it.",
    "C05": "Runs panic / panicrandom: the failing write panics instead of returning an error; the case runs in a child process, which either dies (nothing acknowledged) or survives and is judged by the same oracle. Step sub: a subscriber appears on some node between two publishes (every topic freshly published on at that moment); the destinations of the next publish include that node.",
    "C07": "Run lifetime: a node that has held 70 000 / 300 000 topic names (most cleared again) must still retain, replay and clear a publish on a new name, on the writer and on a mirror; checkpoints around powers of 2 and 10. Run puback: at the very moment a publisher has received the acknowledgement of a retained publish (or clear) another client subscribes: it is sent the new value (nothing older after a clear).",
    "C08": "Run volume: 70 000 / 300 000 changes of each kind made on three origins, delivered in order, reversed and shuffled (batches, duplicates) to three replicas that must all list what the reference table lists.",
    "C09": "Run fingerprints: among 200 000 / 1 500 000 real broadcasts, pairs of different messages that agree under one of 12 32-bit fingerprints (CRC-32 x3, FNV, Adler, truncated MD5/SHA-1/SHA-256, ...) are found by birthday search and delivered to a fresh receiver adjacent, reversed, with duplicates and 300 messages apart; the receiver must list what the reference table of the decoded messages lists. Run bulk: bulk removals of every size 1..130 (thorough 600) - a session's subscriptions, a failed peer's sessions and subscriptions - origin vs. mirror. Run volume (package c08): 70 000 changes of each kind.",
    "C10": "Run sizes: every snapshot size from 1 to 1100 (thorough 4200) sessions, twice as many subscriptions, half as many retained messages (with removals), merged by a fresh node and by a node that lives on snapshots alone. Run big: one snapshot of 70 000 / 300 000 entries of each kind.",
    "C11": "Run lateqos2: generated sequences of held QoS 2 publishes, sweeps of the in-flight table, late PUBREL, repeated PUBREL / PUBCOMP, stray PUBACK / PUBREC: none of them is a cause for ending a session - the connection stays open, PINGREQ is answered, session and subscription stay listed.",
    "C12": "Run simultaneous: 2-24 connections presenting one identifier at the same moment on a node knowing 0 / 2000 / 20000 sessions: all are established; after each has pinged exactly one is served, the one the identifier resolves to. Run connack: at the very moment the new connection has received its CONNACK the earlier session sends a PINGREQ: it is not answered and that connection is closed; the identifier resolves to the new session, whose own PINGREQ is answered (chains of 1-4 takeovers).",
    "C15": "Run longlogs: logs growing past 10 000 (thorough 100 000) entries with the consumer killed before, at and after the boundary while a backlog is ahead of it, then restarted.",
    "C16": "File entries whose password column is empty or a truncated digest (disabled accounts): they match no password.",
    "C17": "Mount-point names may be hierarchical (customers/acme, t/1/x), no name being a level-prefix of another.",
    "C19": "Steps snap / back: a dump taken earlier is loaded later into the store as it is by then; the store answers as it did when the dump was taken (in the exhaustive alphabet and in the random histories).",
}
