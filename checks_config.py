"""Per-property run plans for ./check (what to build, which tests, how many cases)."""

PROPS = {}

PROPS["C19"] = dict(
    level="exploration",
    rule=("cases are operation sequences (write v1/v2, remove, upsert-append, dump->Load) on topics.Store / "
          "subscriptions.Tree compared with a map[string]string after every step; exhaustive part: all sequences "
          "up to length L (4 quick / 5 thorough) over keys a, a/b, a/b/c, a/c, b; random part: 1-12 steps over "
          "generated key sets (deeper prefixes, siblings, empty and multi-byte levels). Non-trivial = the sequence "
          "removes/replaces/appends a key while a prefix or extension of it is present, or continues after a "
          "round trip. Distinct = distinct (store, key set, sequence)."),
    assumptions=[
        "keys are topic names without wildcards; values are non-empty byte strings",
        "subscriptions.Tree has no Count(); only Iterate is compared there",
        "reference model: map[string]string (harness/c19)",
    ],
    runs=[
        dict(name="regress", pkg="c19", run="TestRegress"),
        dict(name="enum", pkg="c19", run="TestEnum", shards=dict(quick=1, thorough=16), timeout=dict(quick=300, thorough=1500)),
        dict(name="random", pkg="c19", run="TestRandom", checks=dict(quick=40000, thorough=1600000),
             shards=dict(quick=4, thorough=16), timeout=dict(quick=300, thorough=1500)),
    ],
)
